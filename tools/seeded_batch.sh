#!/bin/bash
# tools/seeded_batch.sh <list-file: "Cxx X" per line> <worktree-prefix> [tier] [checks|SELF]
# Runs seeded_scratch.sh for every entry, in parallel across properties but serially within one worktree.
LIST="$1"; PFX="$2"; TIER="${3:-quick}"; WHAT="${4:-SELF}"
cd "$(dirname "$0")/.."
# freeze the harness sources so that edits made while the campaign runs do not leak into it
SNAP="$PWD/.scratch/harness_snapshot.$$"; rm -rf "$SNAP"; cp -r harness "$SNAP"; export VERIF_HARNESS_DIR="$SNAP"; trap 'rm -rf "$SNAP"' EXIT
cut -d' ' -f1 "$LIST" | sort -u | xargs -P ${SEEDED_PAR:-8} -I{} bash -c '
  p={}; for x in $(grep "^$p " "'"$LIST"'" | cut -d" " -f2); do
    if [ "'"$WHAT"'" = SELF ]; then ./tools/seeded_scratch.sh '"$PFX"'$p $x '"$TIER"' $p 2>&1 | tail -25 | cut -c1-400;
    else ./tools/seeded_scratch.sh '"$PFX"'$p $x '"$TIER"' 2>&1 | tail -25 | cut -c1-400; fi
  done'
