#!/bin/bash
# tools/seeded_scratch.sh <worktree> <A|B> [tier] [checks...]
# Exploration aid: applies <worktree>/_seeded/<X>/patch.diff inside that scratch worktree (never /repo), runs the
# checks against it through VERIF_REPO, and reverts the worktree. Prints which checks report a VIOLATION.
set -u
WT="$1"; X="$2"; shift 2
TIER="${1:-quick}"; [ $# -gt 0 ] && shift
CHECKS="$*"; [ -z "$CHECKS" ] && CHECKS="$(seq -f 'C%02g' 1 20)"
cd "$(dirname "$0")/.."; . ./env.sh
D="$WT/_seeded/$X"
git -C "$WT" checkout -q -- . ; git -C "$WT" clean -fdq -e _seeded
git -C "$WT" apply "$D/patch.diff" || { echo "RESULT $D patch-does-not-apply"; exit 2; }
(cd "$WT" && go build ./... ) || { echo "RESULT $D does-not-compile"; git -C "$WT" checkout -q -- .; exit 2; }
SUITE=$(cd "$WT" && go test -vet=off -count=1 ./... 2>&1 | grep -c '^ok')
cp "$D/demo_test.go" "$WT/zz_seeded_demo_test.go"
DEMO=$(cd "$WT" && go test -vet=off -count=1 -run TestSeeded ./... 2>&1 | grep -c '^ok')
rm -f "$WT/zz_seeded_demo_test.go"
CAUGHT=""
for c in $CHECKS; do
  OUT=$(VERIF_REPO="$WT" VERIF_SEED=${VERIF_SEED:-1} ./check $c $TIER 2>&1); rc=$?
  if [ $rc -eq 1 ]; then
    SIG=$(echo "$OUT" | grep -m2 'sig=' | sed 's/^ *//' | cut -c1-260 | tr '\n' '|')
    CAUGHT="$CAUGHT $c"; echo "  [$D] CAUGHT by $c: $SIG"
  elif [ $rc -ne 0 ]; then echo "  [$D] $c rc=$rc: $(echo "$OUT" | tail -1 | cut -c1-200)"; fi
done
git -C "$WT" checkout -q -- . ; git -C "$WT" clean -fdq -e _seeded
echo "RESULT $D suite_ok=$SUITE demo_fails_with_patch=$((1-DEMO)) caught_by=[${CAUGHT# }] tier=$TIER"
