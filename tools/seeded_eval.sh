#!/bin/bash
# tools/seeded_eval.sh <seeded-dir> [tier] [check ids...]
# Applies <seeded-dir>/patch.diff to /repo, confirms (a) it compiles, (b) the repository's own tests pass,
# (c) the demonstration test fails with it; then runs the listed checks (default: all 20, quick) and records
# which of them report a VIOLATION; finally restores /repo and confirms the demonstration passes without it.
set -u
D="$(cd "$1" && pwd)"; shift
TIER="${1:-quick}"; [ $# -gt 0 ] && shift
CHECKS="$*"; [ -z "$CHECKS" ] && CHECKS="$(seq -f 'C%02g' 1 20)"
cd "$(dirname "$0")/.."
. ./env.sh
if [ -n "$(git -C /repo status --porcelain)" ]; then echo "refusing: /repo is not clean"; exit 2; fi
restore() { git -C /repo checkout -- . ; rm -f /repo/zz_seeded_demo_test.go; }
trap restore EXIT
git -C /repo apply "$D/patch.diff" || { echo "RESULT $D patch-does-not-apply"; exit 2; }
(cd /repo && go build ./... ) || { echo "RESULT $D does-not-compile"; exit 2; }
SUITE=$(cd /repo && go test -vet=off -count=1 ./... 2>&1 | tail -3)
if ! echo "$SUITE" | grep -q '^ok'; then echo "RESULT $D suite-fails: $SUITE"; exit 2; fi
cp "$D/demo_test.go" /repo/zz_seeded_demo_test.go
DEMO=$(cd /repo && go test -vet=off -count=1 -run TestSeeded ./... 2>&1 | tail -5)
rm -f /repo/zz_seeded_demo_test.go
if echo "$DEMO" | grep -q '^ok'; then echo "RESULT $D demo-does-not-fail-with-patch"; exit 2; fi
CAUGHT=""; MISSED=""
for c in $CHECKS; do
  OUT=$(VERIF_OUT=$PWD/.scratch/evalout VERIF_SEED=${VERIF_SEED:-1} ./check $c $TIER 2>&1); rc=$?
  if [ $rc -eq 1 ]; then
    SIG=$(echo "$OUT" | grep -m3 'sig=' | sed 's/^ *//' | cut -c1-220 | tr '\n' '|')
    CAUGHT="$CAUGHT $c"; echo "  CAUGHT by $c: $SIG"
  elif [ $rc -ne 0 ]; then echo "  $c rc=$rc: $(echo "$OUT" | tail -1 | cut -c1-200)"; MISSED="$MISSED $c(rc$rc)";
  else MISSED="$MISSED $c"; fi
done
restore
cp "$D/demo_test.go" /repo/zz_seeded_demo_test.go
CLEAN=$(cd /repo && go test -vet=off -count=1 -run TestSeeded ./... 2>&1 | tail -3)
rm -f /repo/zz_seeded_demo_test.go
if ! echo "$CLEAN" | grep -q '^ok'; then echo "RESULT $D demo-fails-without-patch: $CLEAN"; exit 2; fi
echo "RESULT $D confirmed caught_by=[${CAUGHT# }] tier=$TIER"
