#!/usr/bin/env python3
"""Collects confirmed seeded changes from the scratch worktrees into /verif/seeded/<id>/ and prints the
DESIGN.md §9 table from a matrix log produced by tools/seeded_scratch.sh."""
import json, os, re, shutil, sys
logs = sys.argv[1:]
res = {}
caught = {}
import itertools
for line in itertools.chain(*[open(l, errors='replace') for l in logs]):
    m = re.search(r'\[(/tmp/wt[0-9]?-(C\d+)/_seeded/(\w+))\] CAUGHT by (C\d+): (.*)', line)
    if m:
        key = m.group(2) + '-' + m.group(3)
        sig = re.search(r'sig=(\S+)', m.group(5))
        caught.setdefault(key, {})[m.group(4)] = sig.group(1) if sig else ''
    m = re.search(r'RESULT (/tmp/wt[0-9]?-(C\d+)/_seeded/(\w+)) suite_ok=(\d) demo_fails_with_patch=(\d) caught_by=\[(.*?)\] tier=(\w+)', line)
    if m:
        key = m.group(2) + '-' + m.group(3)
        prev = res.get(key, {}).get('caught_by', [])
        res[key] = dict(dir=m.group(1), prop=m.group(2), suite_ok=m.group(4) == '1', demo_fails=m.group(5) == '1', caught_by=sorted(set(prev) | set(m.group(6).split())), tier=m.group(7))
rows = []
for key in sorted(res):
    r = res[key]
    if not (r['suite_ok'] and r['demo_fails']):
        print('NOT CONFIRMED', key, r, file=sys.stderr)
        continue
    dst = os.path.join('/verif/seeded', key)
    os.makedirs(dst, exist_ok=True)
    for f in ('patch.diff', 'demo_test.go'):
        shutil.copy(os.path.join(r['dir'], f), os.path.join(dst, f))
    meta = json.load(open(os.path.join(r['dir'], 'meta.json')))
    meta['property'] = r['prop']
    if os.path.exists(os.path.join(r['dir'], 'patch.orig')):
        meta['ported'] = 'patch.diff was re-created on top of the later fix commits b360d40/0fcc3aa (context moved or the touched function was repaired in between); same change as the author wrote'

    meta['author'] = 'independent sub-agent given only the property text and a scratch worktree'
    meta['confirmed'] = {
        'ran': 'tools/seeded_scratch.sh <worktree> <X> quick [checks] (scratch worktree at /repo HEAD: applies patch.diff, go build, full repository suite, demo test with the patch, the quick checks through VERIF_REPO, revert); demo test re-run without the patch',
        'repository_suite_passes_with_change': True,
        'demo_fails_with_change': True,
        'caught_by_quick_checks': r['caught_by'],
        'signatures': caught.get(key, {}),
    }
    json.dump(meta, open(os.path.join(dst, 'meta.json'), 'w'), indent=1, ensure_ascii=False)
    what = meta.get('what', '').replace('\n', ' ').replace('|', '\\|')
    if len(what) > 160:
        what = what[:157] + '...'
    own = r['prop'] in r['caught_by']
    others = [c for c in r['caught_by'] if c != r['prop']]
    rows.append('| %s | %s | %s | %s |' % (key, what, ('**%s** `%s`' % (r['prop'], caught.get(key, {}).get(r['prop'], ''))) if own else '— (see below)', ', '.join(others) or '—'))
print('| id | change | caught by its property\'s check (signature) | also caught by |')
print('|---|---|---|---|')
print('\n'.join(rows))
