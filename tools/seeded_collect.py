#!/usr/bin/env python3
"""Collects confirmed seeded changes from the scratch worktrees into /verif/seeded/<id>/ and prints the
DESIGN.md §9 table from a matrix log produced by tools/seeded_scratch.sh."""
import json, os, re, shutil, sys
logs = sys.argv[1:]
res = {}
caught = {}
# matrix2.log was recorded while the round-2 worktrees still predated the repair of finding F17 (final INI line of
# exactly 4096*k bytes): C14 reported that unrepaired defect in every one of them, so C14 entries of that log
# count only for the changes where it reported something else.
GENUINE_C14_ROUND2 = {'C14-D', 'C13-E', 'C14-E', 'C13-F', 'C12-F', 'C14-F'}
for l in logs:
    old_round2 = os.path.basename(l) == 'matrix2.log'
    for line in open(l, errors='replace'):
        m = re.search(r'\[(/tmp/wt[0-9]?-(C\d+)/_seeded/(\w+))\] CAUGHT by (C\d+): (.*)', line)
        if m:
            key = m.group(2) + '-' + m.group(3)
            if old_round2 and m.group(4) == 'C14' and key not in GENUINE_C14_ROUND2:
                continue
            sig = re.search(r'sig=(\S+)', m.group(5))
            if m.group(4) not in caught.get(key, {}) or not old_round2:
                caught.setdefault(key, {})[m.group(4)] = sig.group(1) if sig else ''
        m = re.search(r'RESULT (/tmp/wt[0-9]?-(C\d+)/_seeded/(\w+)) suite_ok=(\d) demo_fails_with_patch=(\d) caught_by=\[(.*?)\] tier=(\w+)', line)
        if m:
            key = m.group(2) + '-' + m.group(3)
            cb = set(m.group(6).split())
            if old_round2 and key not in GENUINE_C14_ROUND2:
                cb.discard('C14')
            prev = res.get(key, {}).get('caught_by', [])
            res[key] = dict(dir=m.group(1), prop=m.group(2), suite_ok=m.group(4) == '1', demo_fails=m.group(5) == '1', caught_by=sorted(set(prev) | cb), tier=m.group(7))
rows = []
for key in sorted(res):
    r = res[key]
    if not (r['suite_ok'] and r['demo_fails']):
        print('NOT CONFIRMED', key, r, file=sys.stderr)
        continue
    dst = os.path.join('/verif/seeded', key)
    os.makedirs(dst, exist_ok=True)
    for f in ('patch.diff', 'demo_test.go'):
        shutil.copy(os.path.join(r['dir'], f), os.path.join(dst, f))
    meta = json.load(open(os.path.join(r['dir'], 'meta.json')))
    meta['property'] = r['prop']
    if os.path.exists(os.path.join(r['dir'], 'patch.orig')):
        meta['ported'] = 'patch.diff was re-created on top of the later fix commits b360d40/0fcc3aa/74ae14b (context moved or the touched function was repaired in between); same change as the author wrote'

    meta['author'] = 'independent sub-agent given only the property text and a scratch worktree'
    meta['confirmed'] = {
        'ran': 'tools/seeded_scratch.sh <worktree> <X> quick [checks] (scratch worktree at /repo HEAD: applies patch.diff, go build, full repository suite, demo test with the patch, the quick checks through VERIF_REPO, revert); demo test re-run without the patch',
        'repository_suite_passes_with_change': True,
        'demo_fails_with_change': True,
        'caught_by_quick_checks': r['caught_by'],
        'signatures': caught.get(key, {}),
    }
    json.dump(meta, open(os.path.join(dst, 'meta.json'), 'w'), indent=1, ensure_ascii=False)
    what = meta.get('what', '').replace('\n', ' ').replace('|', '\\|')
    if len(what) > 160:
        what = what[:157] + '...'
    own = r['prop'] in r['caught_by']
    others = [c for c in r['caught_by'] if c != r['prop']]
    rows.append('| %s | %s | %s | %s |' % (key, what, ('**%s** `%s`' % (r['prop'], caught.get(key, {}).get(r['prop'], ''))) if own else '— (see below)', ', '.join(others) or '—'))
print('| id | change | caught by its property\'s check (signature) | also caught by |')
print('|---|---|---|---|')
print('\n'.join(rows))
