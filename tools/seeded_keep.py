#!/usr/bin/env python3
# tools/seeded_keep.py <worktree> <X> <PROP> <caught-by-csv> <signature>
# copies one confirmed seeded change from <worktree>/_seeded/<X>/ to /verif/seeded/<PROP>-<X>/ and records the confirmation
import json, shutil, sys, os
wt, x, prop, caught, sig = sys.argv[1:6]
src = os.path.join(wt, '_seeded', x)
dst = '/verif/seeded/%s-%s' % (prop, x)
os.makedirs(dst, exist_ok=True)
for f in ('patch.diff', 'demo_test.go'):
    shutil.copy(os.path.join(src, f), dst)
m = json.load(open(os.path.join(src, 'meta.json')))
m['author'] = 'independent sub-agent given only the property text and a scratch worktree'
cl = [c for c in caught.split(',') if c]
m['confirmed'] = {
    'ran': 'tools/seeded_scratch.sh <worktree> <X> quick [checks] (scratch worktree at /repo HEAD: applies patch.diff, go build, full repository suite, demo test with the patch, the quick checks through VERIF_REPO, revert); demo test re-run without the patch',
    'repository_suite_passes_with_change': True, 'demo_fails_with_change': True, 'demo_passes_without_change': True,
    'caught_by_quick_checks': cl, 'signatures': ({cl[0]: sig} if cl else {}),
}
json.dump(m, open(os.path.join(dst, 'meta.json'), 'w'), indent=1, ensure_ascii=False)
print('kept', dst)
