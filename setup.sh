#!/bin/bash
# setup_cmd: build the harness once, offline, and run the reference-function self-tests.
set -e
cd "$(dirname "$0")"
. ./env.sh
mkdir -p bin evidence replay .scratch
(cd harness && go build -tags verif -o ../bin/vh .)
./bin/vh selftest
