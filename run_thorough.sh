#!/bin/bash
# Runs every thorough check once (used for background sweeps). Exit status = number of non-zero checks.
cd "$(dirname "$0")"
bad=0
for i in $(seq -w 1 20); do
  start=$(date +%s)
  ./check C$i thorough > .scratch/thorough_C$i.log 2>&1
  rc=$?
  end=$(date +%s)
  echo "C$i rc=$rc $((end-start))s $(tail -1 .scratch/thorough_C$i.log | cut -c1-200)"
  if [ $rc -ne 0 ]; then bad=$((bad+1)); grep -A2 "VIOLATION\|BROKEN" .scratch/thorough_C$i.log | head -20; fi
done
exit $bad
