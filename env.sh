export GOFLAGS=-mod=mod GOPROXY=off GOSUMDB=off GOTOOLCHAIN=local
export GOCACHE="${GOCACHE:-$HOME/.cache/go-build}"
