package main

import (
	"fmt"
	"strconv"
	"strings"

	flags "github.com/jessevdk/go-flags"
)

// C02: all documented spellings of an option occurrence are interchangeable (metamorphic pairs).

type spellVar struct {
	Sp     Spelling
	Quoted bool
}

var c02Variants []spellVar
var c02Pairs [][2]int

var c02ValueClasses = []string{"empty", "plain", "lead-eq", "lead-quote", "inner-quote-backslash", "lead-dash", "negative-number", "multibyte", "invalid-utf8", "long-5k", "option-shaped", "colon-eq-mix", "valid-literal-text"}
var c02RuneClasses = []string{"ascii-letter", "digit", "2-byte", "3-byte", "4-byte"}
var c02Positions = []string{"first", "middle", "last", "after-command", "before-terminator"}

func init() {
	for sp := Spelling(0); sp < numSpellings; sp++ {
		c02Variants = append(c02Variants, spellVar{sp, false}, spellVar{sp, true})
	}
	for i := 0; i < len(c02Variants); i++ {
		for j := i + 1; j < len(c02Variants); j++ {
			c02Pairs = append(c02Pairs, [2]int{i, j})
		}
	}
}

func c02Rune(r *Rand, class int) rune {
	switch class {
	case 0:
		return []rune("abcdefgijklmnopqrstuvwxyzABCDEFGHIJKLMNOPQRSTUVWXYZ")[r.Intn(51)]
	case 1:
		return rune('0' + r.Intn(10))
	case 2:
		return []rune("éßñøλЖ")[r.Intn(6)]
	case 3:
		return []rune("世界€‰")[r.Intn(4)]
	}
	return []rune("😀𝄞🂡")[r.Intn(3)]
}

// c02Value produces a denoted text of the requested class that is a valid value for option o
// (ok=false if the class does not exist for the option's type).
func c02Value(r *Rand, o *Opt, class string) (string, bool) {
	t := o.T
	str := (t.K == KString || t.K == KPicky || t.K == KVocab) && t.W != WMap
	mapStr := t.W == WMap && t.K == KString && t.MapKey == KString
	wrap := func(s string) string {
		if mapStr {
			return "k" + strconv.Itoa(r.Intn(3)) + ":" + s
		}
		return s
	}
	switch class {
	case "plain":
		return GenValueText(r, o), true
	case "negative-number":
		if t.W == WMap || !isSignedKind(t.K) {
			return "", false
		}
		switch t.K {
		case KFloat32, KFloat64:
			return fmt.Sprintf("-%d.%d", r.Intn(100), r.Intn(100)), true
		case KInt8:
			return fmt.Sprintf("-%d", r.Intn(128)), true
		}
		v := fmt.Sprintf("-%d", r.Intn(30000))
		if o.Base != 0 && o.Base != 10 {
			return "", false
		}
		return v, true
	}
	if !str && !mapStr {
		return "", false
	}
	if len(o.Choices) > 0 {
		return "", false
	}
	switch class {
	case "empty":
		return wrap(""), true
	case "lead-eq":
		if mapStr {
			return "=k:" + "v", true
		}
		return "=" + fmt.Sprintf("v%d", r.Intn(100)), true
	case "lead-quote":
		if mapStr {
			return "", false
		}
		return "\"" + fmt.Sprintf("q%d", r.Intn(100)), true
	case "inner-quote-backslash":
		return wrap(fmt.Sprintf("a\"b\\c%d\\\"", r.Intn(100))), true
	case "lead-dash":
		if mapStr {
			return "-k:v", true
		}
		return "-" + r.Pick([]string{"", "-", "--", "---x", " x"}), true
	case "multibyte":
		return wrap("é世😀" + fmt.Sprintf("%d", r.Intn(100))), true
	case "invalid-utf8":
		return wrap("a\xffb\xc3" + fmt.Sprintf("%d", r.Intn(100))), true
	case "long-5k":
		return wrap(strings.Repeat("x", 5000) + fmt.Sprintf("%d", r.Intn(100))), true
	case "option-shaped":
		if mapStr {
			return "--k:v", true
		}
		return r.Pick([]string{"-x", "--long", "--long=v", "-9", "-abc", "--é"}), true
	case "colon-eq-mix":
		return wrap("a=b:c=d"), true
	case "valid-literal-text":
		if mapStr {
			return "", false
		}
		return strconv.Quote(fmt.Sprintf("lit%d", r.Intn(100))), true
	}
	return "", false
}

// c02Nested: deeper nestings of pointers and slices. What a pointer to a list does with earlier content is not
// stated anywhere (it is extended, not replaced), so these types appear only where two spellings are compared from
// the same starting state - never in histories or against a denotation.
var c02Nested = []TypeSpec{{K: KInt, W: WPtrPtr}, {K: KInt, W: WPtrSlice}, {K: KFloat64, W: WPtrSlice}, {K: KInt64, W: WPtrPtr}}

func c02Cfg() *DeclCfg {
	cfg := c02CfgPlain()
	cfg.Types = append(append([]TypeSpec{}, typesAll...), c02Nested...)
	cfg.Types = append(cfg.Types, c02Nested...)
	return cfg
}

func c02CfgPlain() *DeclCfg {
	return &DeclCfg{
		MaxDepth: 2, MaxFan: 2, PCmds: 60, Types: typesAll, OptsMin: 1, OptsMax: 4, SubGroupsMax: 1, PInline: 20, NestMax: 1,
		PNamespace: 40, PShortOnly: 10, PLongOnly: 10, NonASCII: true, PClash: 0,
		PDefault: 10, PChoices: 8, POptional: 8, PBase: 20, PNoUnquote: 12,
		PInitial: 20, PPos: 30, PosMax: 2, PRest: 50, PExec: 20, PByTag: 50, PSubOptional: 40, PAliases: 30,
		ParserOpts: parserOptSubsets, NsDelims: []string{"", ".", "-"},
		PosTypes: []TypeSpec{{K: KString}},
	}
}

type parseOutcome struct {
	Snap map[string]string
	Log  []CallEntry
	Rest []string
	Err  string
	OK   bool
	Pan  string
}

func runOutcome(d *Decl, args []string) parseOutcome {
	b := d.Build()
	o := RunParse(b, args)
	out := parseOutcome{Snap: o.Snap, Log: o.Log, OK: o.Err == nil}
	if o.Panic != nil {
		out.Pan = o.Panic.Value
	}
	if o.Err == nil {
		out.Rest = o.Rest
	} else if o.FErr != nil {
		out.Err = o.FErr.Type.String() + ": " + o.FErr.Message
	} else {
		out.Err = fmt.Sprintf("%T: %v", o.Err, o.Err)
	}
	return out
}

func diffOutcome(a, b parseOutcome) string {
	if a.Pan != b.Pan {
		return fmt.Sprintf("panic %q vs %q", a.Pan, b.Pan)
	}
	if a.OK != b.OK || a.Err != b.Err {
		return fmt.Sprintf("error %q vs %q", a.Err, b.Err)
	}
	for k, v := range a.Snap {
		if b.Snap[k] != v {
			return fmt.Sprintf("field %s: %s vs %s", k, v, b.Snap[k])
		}
	}
	if !eqCalls(a.Log, b.Log) {
		return fmt.Sprintf("call log %v vs %v", a.Log, b.Log)
	}
	if a.OK && !eqStrs(a.Rest, b.Rest) {
		return fmt.Sprintf("remaining arguments %q vs %q", a.Rest, b.Rest)
	}
	return ""
}

func c02Run(c *Ctx) {
	r := c.R
	k := c.K
	if inHistTail(c, 48000, 1500000) {
		// the long spelling after the program renamed something between two parses on one parser
		histCase(c, GenDecl(c.Sub("d"), c02CfgPlain()), []string{"rename-namespace", "rename-option", "delimiter"}, []string{"parse"})
		return
	}
	if k%8 == 7 {
		c02Cluster(c)
		return
	}
	pair := c02Pairs[k%int64(len(c02Pairs))]
	k /= int64(len(c02Pairs))
	vclass := c02ValueClasses[k%int64(len(c02ValueClasses))]
	k /= int64(len(c02ValueClasses))
	rclass := int(k % int64(len(c02RuneClasses)))
	k /= int64(len(c02RuneClasses))
	pos := c02Positions[k%int64(len(c02Positions))]
	va, vb := c02Variants[pair[0]], c02Variants[pair[1]]

	var d *Decl
	var focus *Opt
	var txt string
	for try := 0; try < 20 && focus == nil; try++ {
		d = GenDecl(c.Sub(fmt.Sprint("d", try)), c02Cfg())
		for _, o := range d.Opts {
			if o.T.IsFlag() || o.Short == 0 || o.Long == "" {
				continue
			}
			if pos == "after-command" && o.Cmd.Parent == nil && len(d.Root.Subs) == 0 {
				continue
			}
			if pos == "before-terminator" && d.Options&flags.PassDoubleDash == 0 {
				continue
			}
			if (va.Quoted || vb.Quoted) && o.NoUnquote {
				continue
			}
			if t, ok := c02Value(c.Sub(fmt.Sprint("v", try, o.ID)), o, vclass); ok {
				focus, txt = o, t
				break
			}
		}
	}
	if focus == nil {
		c.Unspec("no option admits value class " + vclass + " at position " + pos)
		return
	}
	// give the focus option a short rune of the requested class (unique within its command scope chain)
	nr := c02Rune(r, rclass)
	clash := false
	for _, o := range d.Opts {
		if o != focus && o.Short == nr {
			clash = true
		}
	}
	if !clash && !(d.Options&flags.HelpFlag != 0 && nr == 'h') {
		focus.Short = nr
	}
	// base scenario that ends in the focus option's command
	scfg := &ScenCfg{MaxItems: 6, POcc: 45, PCluster: 10, PPos: 20, PCmd: 15, PTerm: 0, PQuoted: 10, Target: focus.Cmd}
	sc := GenScenario(r, d, scfg)
	// the focus must be addressable by both of its names in every context between its own command and the
	// command the vector ends in (chance shadowing by an inner command's option would change the referent)
	reached := false
	for _, cc := range sc.Final.Chain() {
		if cc == focus.Cmd {
			reached = true
		}
	}
	if !reached {
		c.Unspec("scenario did not reach the focus option's command")
		return
	}
	for _, cc := range sc.Final.Chain() {
		if cc.Depth < focus.Cmd.Depth {
			continue
		}
		scope := d.ScopeOf(cc)
		if scope.Short[focus.Short] != focus || scope.Long[d.FullLong(focus)] != focus {
			c.Unspec("focus option shadowed by an inner declaration somewhere along the chain")
			return
		}
	}
	// insertion index
	items := sc.Items
	lastCmd := -1
	passIdx := len(items)
	for i, it := range items {
		if it.Kind == ICmd {
			lastCmd = i
		}
		if (it.Kind == IRaw || it.Kind == ITerm) && passIdx == len(items) {
			passIdx = i
		}
		if it.Kind == IPos && d.Options&flags.PassAfterNonOption != 0 && passIdx == len(items) {
			passIdx = i
		}
	}
	lo := 0
	if focus.Cmd != d.Root {
		lo = lastCmd + 1
	}
	hi := passIdx
	if hi < lo {
		c.Unspec("no legal position")
		return
	}
	var at int
	switch pos {
	case "first":
		at = lo
	case "last", "before-terminator":
		at = hi
	case "after-command":
		at = lo
	default:
		at = lo + r.Intn(hi-lo+1)
	}
	mk := func(v spellVar) ([]string, bool, bool) {
		arg := txt
		if v.Quoted {
			arg = strconv.Quote(txt)
		}
		if v.Sp.IsSep() {
			ok, spec := SepAdmissible(d, focus, arg)
			if !ok {
				return nil, false, spec
			}
		}
		if v.Sp == SpShortAttached && (arg == "" || arg[0] == '=') {
			return nil, false, true
		}
		it := &Item{Kind: IOcc, Opt: focus, Text: txt, Sp: v.Sp, Quoted: v.Quoted}
		var all []*Item
		all = append(all, items[:at]...)
		all = append(all, it)
		if pos == "before-terminator" {
			all = append(all, &Item{Kind: ITerm}, &Item{Kind: IRaw, Tok: "-tail"})
		}
		all = append(all, items[at:]...)
		args := RenderItems(d, all)
		return args, true, true
	}
	// an unquoted spelling of a text that starts with '"' is read as a literal: it only pairs with unquoted ones
	if strings.HasPrefix(txt, "\"") && va.Quoted != vb.Quoted {
		c.Unspec("text starts with a quote: quoted and unquoted spellings denote different values")
		return
	}
	argsA, okA, specA := mk(va)
	argsB, okB, specB := mk(vb)
	if !okA || !okB {
		if !specA || !specB {
			c.Unspec("separate-token admissibility is a judgement call for this value")
		}
		return // pair not admissible: trivial
	}
	// hostile surroundings: the same odd token inserted into both vectors at the same relative place (the end)
	if c.K%5 == 0 {
		extra := r.Pick([]string{"--no-such-option=1", "--" + d.FullLong(focus) + "x=1", "-"})
		argsA = append(argsA, extra)
		argsB = append(argsB, extra)
	}
	oa := runOutcome(d, argsA)
	ob := runOutcome(d, argsB)
	c.Count("parses", 2)
	c.Case(func() interface{} {
		return map[string]interface{}{"declaration": d.Describe(), "focus": focus.Field, "value": txt, "argv_a": fmt.Sprintf("%q", argsA), "argv_b": fmt.Sprintf("%q", argsB),
			"spelling_a": fmt.Sprintf("%s quoted=%v", va.Sp, va.Quoted), "spelling_b": fmt.Sprintf("%s quoted=%v", vb.Sp, vb.Quoted)}
	})
	if oa.Pan != "" || ob.Pan != "" {
		c.Violate("panic", "panic: %q / %q", oa.Pan, ob.Pan)
		return
	}
	if df := diffOutcome(oa, ob); df != "" {
		sig := fmt.Sprintf("spelling:%s|%s:rune-bytes=%d", va.Sp, vb.Sp, len(string(focus.Short)))
		c.Violate(sig, "spellings %s(quoted=%v) and %s(quoted=%v) of %s=%q differ: %s", va.Sp, va.Quoted, vb.Sp, vb.Quoted, d.OptString(focus), txt, df)
		c.Note("outcome_a", oa.Err)
		c.Note("outcome_b", ob.Err)
		return
	}
	okS := "ok"
	if !oa.OK {
		okS = "err"
	}
	c.Held(fmt.Sprintf("%s|%s/q%v%v/%s", va.Sp, vb.Sp, va.Quoted, vb.Quoted, vclass), fmt.Sprintf("%s %s %s %s", focus.T, c02RuneClasses[rclass], pos, okS))
}

// c02Cluster: a cluster -abc of flags is interchangeable with -a -b -c.
func c02Cluster(c *Ctx) {
	r := c.R
	cfg := c02Cfg()
	cfg.Types = append(append([]TypeSpec{}, typesFlags...), typesFlags...)
	cfg.Types = append(cfg.Types, TypeSpec{K: KString}, TypeSpec{K: KInt}, TypeSpec{K: KString, W: WSlice})
	cfg.OptsMin, cfg.OptsMax = 3, 6
	cfg.PLongOnly = 0
	d := GenDecl(c.Sub("d"), cfg)
	sc := GenScenario(r, d, &ScenCfg{MaxItems: 8, POcc: 30, PCluster: 45, PPos: 10, PCmd: 15, PQuoted: 10})
	var idx []int
	for i, it := range sc.Items {
		if it.Kind == ICluster {
			idx = append(idx, i)
		}
	}
	if len(idx) == 0 {
		return
	}
	argsA := sc.Args()
	// expand every cluster into separate short flags (+ the trailing argument-taking option in separate form)
	var items []*Item
	for _, it := range sc.Items {
		if it.Kind != ICluster {
			items = append(items, it)
			continue
		}
		for _, f := range it.Flags {
			if f.T.IsFlag() {
				items = append(items, &Item{Kind: IFlag, Opt: f})
			} else {
				items = append(items, &Item{Kind: IOptNoArg, Opt: f})
			}
		}
		if it.Opt != nil && it.OptNoArg {
			items = append(items, &Item{Kind: IOptNoArg, Opt: it.Opt})
		} else if it.Opt != nil {
			items = append(items, &Item{Kind: IOcc, Opt: it.Opt, Text: it.Text, Quoted: it.Quoted, Sp: SpShortSep})
		}
	}
	argsB := RenderItems(d, items)
	oa := runOutcome(d, argsA)
	ob := runOutcome(d, argsB)
	c.Count("parses", 2)
	c.Case(func() interface{} {
		return map[string]interface{}{"declaration": d.Describe(), "argv_a": fmt.Sprintf("%q", argsA), "argv_b": fmt.Sprintf("%q", argsB)}
	})
	if oa.Pan != "" || ob.Pan != "" {
		c.Violate("panic", "panic: %q / %q", oa.Pan, ob.Pan)
		return
	}
	if df := diffOutcome(oa, ob); df != "" {
		c.Violate("cluster-vs-separate", "cluster and separated flags differ: %s", df)
		return
	}
	c.Held("cluster|separate", fmt.Sprintf("clusters=%d len=%d", len(idx), len(argsA)))
}

func init() {
	register(&Property{
		ID:    "C02",
		Title: "All documented spellings of an option occurrence are interchangeable",
		Cases: func(tier string) int64 {
			switch tier {
			case "thorough":
				return 1500000 + 125000 // + history cases
			case "race":
				return 0
			}
			return 48000 + 4000 // + history cases
		},
		Run:           c02Run,
		MinNontrivial: 300,
		Rule: "case k decodes to (unordered pair of the 10 spellings {-xV,-x=V,-x V,--name=V,--name V} x {plain, Go-literal}) x 13 value classes x 5 short-rune classes x 5 positions; a random declaration supplies an option admitting that value, the occurrence is inserted into a random valid surrounding vector (every 5th with a hostile trailing token) and both renderings are parsed on fresh parsers; every 8th case compares a cluster with its separated flags. " +
			"Non-trivial = both spellings admissible (per the documented exceptions) and both outcomes compared on values, call log, remaining arguments, error type+message; distinct = (spelling pair, value class, option type, rune class, position, ok/err).",
		Assumptions: []string{"'-' followed by a digit is the reading of 'negative number' for the separate-token exception; -.5/-Inf are unspecified", "a text starting with a double quote is only comparable among equally quoted spellings", "ValueValidator types with option-shaped or '!' values are unspecified in separate-token form"},
		Technique:   "runtime metamorphic monitor: two renderings of the same intent parsed by the real code and compared on all observables; exhaustive spelling-pair x value-class matrix; metamorphic history monitor ([use, change of the public model, use] on one parser vs. a fresh parser of the changed declaration)",
		LevelText:   "Exploration with an exhaustive small-scope matrix: every pair of documented spellings is compared for every value class, short-rune class and position at every seed, with random declarations and surroundings inside each cell. No expected value is needed (metamorphic), so the oracle cannot over-demand beyond the admissibility table.",
		LevelNote:   "Trusted: the admissibility predicate (the documented exceptions), the declaration builder and the renderer.",
		DesignRef:   "§4 C02",
	})
}
