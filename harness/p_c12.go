package main

import (
	"bytes"
	"fmt"
	"math"
	"os"
	"path/filepath"
	"reflect"
	"sort"
	"strconv"
	"strings"
	"time"

	flags "github.com/jessevdk/go-flags"
)

// C12: INI write/read round trip.

var c12Types = []TypeSpec{
	{K: KString}, {K: KString}, {K: KString}, {K: KBool}, {K: KInt}, {K: KInt8}, {K: KInt16}, {K: KInt32}, {K: KInt64}, {K: KUint}, {K: KUint8}, {K: KUint16}, {K: KUint32}, {K: KUint64},
	{K: KFloat32}, {K: KFloat64}, {K: KDuration}, {K: KCelsius}, {K: KLevel}, {K: KLevel, W: WSlice}, {K: KPoint, W: WPtr},
	{K: KString, W: WSlice}, {K: KString, W: WSlice}, {K: KInt, W: WSlice}, {K: KFloat64, W: WSlice}, {K: KBool, W: WSlice}, {K: KDuration, W: WSlice}, {K: KString, W: WSlicePtr},
	{K: KString, W: WPtr}, {K: KInt, W: WPtr}, {K: KBool, W: WPtr}, {K: KFloat64, W: WPtr},
	{K: KString, W: WMap, MapKey: KString}, {K: KString, W: WMap, MapKey: KString}, {K: KInt, W: WMap, MapKey: KString}, {K: KString, W: WMap, MapKey: KInt}, {K: KFloat64, W: WMap, MapKey: KString}, {K: KBool, W: WMap, MapKey: KString},
}

var c12Strings = []string{
	"", "plain", " lead", "trail ", " both ", "  ", " ", "\"q", "\"quoted\"", "in\"ner", "back\\slash", "\\", "semi;colon", ";lead", "#lead", "hash#", "[sect]", "[", "a=b", "=lead", "k:v", ":", "tab\there", "\tlead", "cr\rhere", "lf\nhere", "\n", "nul\x00here",
	"nbsp\u00a0", "\u00a0lead", "ls\u2028sep", "\ufeffbom", "astral😀𝄞", "é", "世界", "\xff\xfe", "a\xffb", "\xc3", "'single'", "`back`", "%d %s", "$HOME", "\\n", "\"", "\"\"", "\\\"", "x\"", " \" ", "\u2003emsp", "trail\u2003", "\x7f", "\x1b[31m",
}

func c12String(r *Rand) string {
	switch r.Intn(10) {
	case 0:
		return strings.Repeat(c12Strings[r.Intn(len(c12Strings))]+"x", 1+5000/(1+len(c12Strings[0])+1)/r.Range(1, 50))
	case 1:
		if r.Chance(1, 10) {
			return strings.Repeat("long", 17500) + c12Strings[r.Intn(len(c12Strings))] // 70 kB
		}
		return strings.Repeat("y", r.Range(4090, 4100))
	case 2, 3:
		n := r.Range(1, 4)
		s := ""
		for i := 0; i < n; i++ {
			s += c12Strings[r.Intn(len(c12Strings))]
		}
		return s
	case 4:
		n := r.Range(1, 8)
		b := make([]byte, n)
		for i := range b {
			b[i] = byte(r.Intn(256))
		}
		return string(b)
	}
	return c12Strings[r.Intn(len(c12Strings))]
}

var hardKeys = true

func utf8ValidPrintable(s string) bool {
	for _, ru := range s {
		if !strconv.IsPrint(ru) {
			return false
		}
	}
	return true
}

// c12HardKey: a single map option whose only difficulty is a key the writer cannot protect.
func c12HardKey(c *Ctx) {
	r := c.R
	kinds := []string{"leading-quote", "line-break", "unprintable"}
	kind := kinds[(c.K/53)%3]
	var key string
	switch kind {
	case "leading-quote":
		key = "\"k" + fmt.Sprint(r.Intn(100))
	case "line-break":
		key = "k" + fmt.Sprint(r.Intn(100)) + "\nx"
	default:
		key = "k\x01" + fmt.Sprint(r.Intn(100))
	}
	d := &Decl{}
	root := &Cmd{ID: d.NewID(), Name: "app"}
	root.G = &Grp{Cmd: root, Field: "G0"}
	d.Root = root
	d.Cmds = append(d.Cmds, root)
	d.Grps = append(d.Grps, root.G)
	o := &Opt{ID: d.NewID(), Field: "M", Long: "m", T: TypeSpec{K: KString, W: WMap, MapKey: KString}, Grp: root.G, Cmd: root}
	root.G.Opts = append(root.G.Opts, o)
	d.Opts = append(d.Opts, o)
	a := d.Build()
	a.P.ParseArgs(nil)
	o.Val.Set(reflect.ValueOf(map[string]string{key: "v"}))
	before := Canon(o.Val)
	var buf bytes.Buffer
	flags.NewIniParser(a.P).Write(&buf, flags.IniNone)
	c.Case(func() interface{} { return map[string]interface{}{"map_key": key, "ini": buf.String()} })
	bb := d.Build()
	var rerr error
	if pi := safely(func() { rerr = flags.NewIniParser(bb.P).Parse(strings.NewReader(buf.String())) }); pi != nil {
		c.Violate("hard-map-key:"+kind+":panic", "panic: %s", pi.Value)
		return
	}
	bb.P.ParseArgs(nil)
	if rerr != nil || Canon(o.Val) != before {
		c.Violate("hard-map-key:"+kind, "map key %q does not survive the round trip: error %v, read back %s", key, rerr, Canon(o.Val))
		return
	}
	c.Held("hard-map-key/"+kind, "k")
}

func c12MapKey(r *Rand) string {
	for {
		var k string
		switch r.Intn(6) {
		case 0:
			k = c12String(r)
			if len(k) > 200 {
				k = k[:200]
			}
		default:
			k = fmt.Sprintf("k%d", r.Intn(6))
		}
		// the key:value syntax cannot express other keys: non-empty, free of ':' and of surrounding whitespace
		if k == "" || strings.Contains(k, ":") || strings.TrimSpace(k) != k {
			continue
		}
		// keys that begin with a double quote or contain unprintable characters are exercised by the dedicated
		// cell c12HardKey only (recorded finding: the key:value syntax of the writer cannot protect them)
		if !hardKeys && (strings.HasPrefix(k, "\"") || !isPrintRef(k) || !utf8ValidPrintable(k)) {
			continue
		}
		return k
	}
}

func c12Scalar(r *Rand, k TK) reflect.Value {
	v := reflect.New(scalarType(k)).Elem()
	switch {
	case k == KString:
		v.SetString(c12String(r))
	case k == KBool:
		v.SetBool(r.Bool())
	case isSIntKind(k):
		lo, hi := intRange(k)
		switch r.Intn(5) {
		case 0:
			v.SetInt(lo.Int64())
		case 1:
			v.SetInt(hi.Int64())
		case 2:
			v.SetInt(int64(r.Intn(3)) - 1)
		default:
			x := int64(r.Uint64())
			bits := uint(intBits(k))
			if bits < 64 {
				x >>= (64 - bits)
			}
			v.SetInt(x)
		}
	case isUIntKind(k):
		_, hi := intRange(k)
		switch r.Intn(4) {
		case 0:
			v.SetUint(hi.Uint64())
		case 1:
			v.SetUint(uint64(r.Intn(2)))
		default:
			x := r.Uint64()
			bits := uint(intBits(k))
			if bits < 64 {
				x >>= (64 - bits)
			}
			v.SetUint(x)
		}
	case k == KFloat32 || k == KFloat64:
		fs := []float64{0, math.Copysign(0, -1), 1, -1, 0.1, math.Inf(1), math.Inf(-1), math.NaN(), math.MaxFloat64, math.SmallestNonzeroFloat64, math.MaxFloat32, math.SmallestNonzeroFloat32, 1e21, 1e-7, 123456789.123456789}
		f := fs[r.Intn(len(fs))]
		if r.Bool() {
			f = math.Float64frombits(r.Uint64())
		}
		if k == KFloat32 {
			f = float64(float32(f))
			if r.Bool() {
				f = float64(math.Float32frombits(uint32(r.Uint64())))
			}
		}
		v.SetFloat(f)
	case k == KDuration:
		ds := []int64{0, 1, -1, math.MaxInt64, math.MinInt64, math.MinInt64 + 1, int64(time.Hour), int64(1500 * time.Millisecond), 999, 1000, 1e9 + 1}
		x := ds[r.Intn(len(ds))]
		if r.Bool() {
			x = int64(r.Uint64()) >> uint(r.Intn(40))
		}
		v.SetInt(x)
	case k == KCelsius:
		v.SetInt(int64(r.Intn(65536)) - 32768)
	case k == KLevel:
		v.SetInt(int64(int32(r.Uint64()>>uint(32+r.Intn(30)))) * int64(1-2*r.Intn(2)))
	case k == KPoint:
		v.Set(reflect.ValueOf(Point{x: r.Intn(2000) - 1000, y: r.Intn(2000) - 1000}))
	}
	return v
}

// c12Value draws a reachable value for option type t.
func c12Value(r *Rand, o *Opt) reflect.Value {
	t := o.T
	v := reflect.New(t.GoType()).Elem()
	switch t.W {
	case WScalar:
		v.Set(c12Scalar(r, t.K))
	case WPtr:
		if r.Chance(1, 4) && len(o.Defaults) == 0 {
			return v // nil (not reachable when default tags exist)
		}
		p := reflect.New(scalarType(t.K))
		p.Elem().Set(c12Scalar(r, t.K))
		v.Set(p)
	case WSlice, WSlicePtr:
		if t.K == KString && len(o.Defaults) >= 2 && r.Chance(1, 4) {
			// one element that reads like the whole default list when rendered
			e := reflect.ValueOf(strings.Join(o.Defaults, ", "))
			if t.W == WSlicePtr {
				p := reflect.New(scalarType(t.K))
				p.Elem().Set(e)
				e = p
			}
			v.Set(reflect.Append(v, e))
			return v
		}
		n := r.Range(0, 3)
		if n == 0 && len(o.Defaults) > 0 {
			n = 1 // an empty slice on an option with defaults is not reachable
		}
		for i := 0; i < n; i++ {
			e := c12Scalar(r, t.K)
			if t.W == WSlicePtr {
				p := reflect.New(scalarType(t.K))
				p.Elem().Set(e)
				e = p
			}
			v.Set(reflect.Append(v, e))
		}
	case WMap:
		n := r.Range(0, 3)
		if n == 0 && len(o.Defaults) > 0 {
			n = 1
		}
		v.Set(reflect.MakeMap(t.GoType()))
		if t.K == KString && t.MapKey == KString && len(o.Defaults) >= 2 && r.Chance(1, 4) {
			// one entry that reads like all default entries when rendered
			if i := strings.IndexByte(o.Defaults[0], ':'); i >= 0 {
				v.SetMapIndex(reflect.ValueOf(o.Defaults[0][:i]), reflect.ValueOf(o.Defaults[0][i+1:]+", "+strings.Join(o.Defaults[1:], ", ")))
				return v
			}
		}
		for i := 0; i < n; i++ {
			var key reflect.Value
			if t.MapKey == KString {
				key = reflect.ValueOf(c12MapKey(r))
			} else {
				key = c12Scalar(r, t.MapKey)
			}
			v.SetMapIndex(key, c12Scalar(r, t.K))
		}
	}
	return v
}

func c12Cfg() *DeclCfg {
	return &DeclCfg{
		MaxDepth: 3, MaxFan: 2, PCmds: 60, Types: c12Types, OptsMin: 1, OptsMax: 4, SubGroupsMax: 2, NestMax: 2,
		PNamespace: 30, PShortOnly: 15, PLongOnly: 25, PDefault: 30, PDefault2: 30, PBase: 40, PHidden: 8, PHiddenGrp: 8, PHiddenCmd: 8,
		PInline: 25, PNameless: 8, PDupIniName: 25, PCmdTwin: 20, PExec: 20, PByTag: 50, PSubOptional: 100, PAliases: 10, PDesc: 50, PIniName: 30, PNoIni: 8, PRequired: 5, PDupField: 25,
		ParserOpts: []flags.Options{0, flags.HelpFlag, flags.Default &^ flags.PrintErrors},
	}
}

// written: is the option one the writer is expected to emit (or omit only because it equals its default)?
func c12Written(o *Opt) bool {
	if o.Hidden || o.NoIni || o.T.IsFunc() {
		return false
	}
	for g := o.Grp; g != nil; g = g.Parent {
		if g.Hidden {
			return false
		}
	}
	for cm := o.Cmd; cm != nil; cm = cm.Parent {
		if cm.Hidden {
			return false
		}
	}
	return true
}

func c12Class(v reflect.Value) string {
	// a coarse signature of what makes the value hard (for violation signatures)
	var probe func(v reflect.Value) string
	probe = func(v reflect.Value) string {
		switch v.Kind() {
		case reflect.String:
			s := v.String()
			switch {
			case s == "":
				return "empty-string"
			case strings.HasPrefix(s, "\""):
				return "leading-quote"
			case strings.TrimSpace(s) != s && (strings.HasPrefix(s, " ") || strings.HasSuffix(s, " ")):
				return "surrounding-blank"
			case strings.TrimSpace(s) != s:
				return "surrounding-space-char"
			case strings.ContainsAny(s, "\n\r"):
				return "line-break"
			}
			return "string"
		case reflect.Ptr:
			if v.IsNil() {
				return "nil-pointer"
			}
			return probe(v.Elem())
		case reflect.Slice:
			for i := 0; i < v.Len(); i++ {
				if p := probe(v.Index(i)); p != "string" && p != "other" {
					return p
				}
			}
			if v.Len() == 0 {
				return "empty-slice"
			}
			return "other"
		case reflect.Map:
			it := v.MapRange()
			for it.Next() {
				if it.Key().Kind() == reflect.String {
					ks := it.Key().String()
					if strings.HasPrefix(ks, "\"") {
						return "map-key-leading-quote"
					}
					if strings.ContainsAny(ks, "\n\r") {
						return "map-key-line-break"
					}
					if !isPrintRef(ks) {
						return "map-key-unprintable"
					}
				}
				if p := probe(it.Value()); p != "string" && p != "other" {
					return "map-value-" + p
				}
			}
			if v.Len() == 0 {
				return "empty-map"
			}
			return "other"
		case reflect.Float32, reflect.Float64:
			return "float"
		}
		return "other"
	}
	return probe(v)
}

func isPrintRef(s string) bool {
	for _, r := range s {
		if r < 0x20 || r == 0x7f || (r >= 0x80 && r < 0xa1) || r == 0xfeff || r == 0x2028 || r == 0x2029 {
			return false
		}
	}
	return true
}

func c12Run(c *Ctx) {
	if c.Sub("api?").Intn(16) == 3 {
		// options registered through the public AddOption API: written and read back
		apiMiniRoundTrip(c)
		return
	}
	r := c.R
	if c.K%53 == 52 {
		c12HardKey(c)
		return
	}
	wopts := flags.IniOptions(0)
	m := c.K % 8
	if m&1 != 0 {
		wopts |= flags.IniIncludeDefaults
	}
	if m&2 != 0 {
		wopts |= flags.IniCommentDefaults
	}
	if m&4 != 0 {
		wopts |= flags.IniIncludeComments
	}
	if c.K%23 == 11 {
		c12Named(c, wopts)
		return
	}
	d := GenDecl(c.Sub("d"), c12Cfg())
	a := d.Build()
	if a.Err != nil {
		c.Violate("setup-error", "declaration rejected: %v", a.Err)
		c.Case(func() interface{} { return d.Describe() })
		return
	}
	// parser A: apply defaults, then store the chosen current values
	var perr error
	if pi := safely(func() { _, perr = a.P.ParseArgs(nil) }); pi != nil {
		c.Violate("panic:parse-a", "ParseArgs(nil) panicked: %s", pi.Value)
		return
	}
	_ = perr
	chosen := map[*Opt]reflect.Value{}
	atDefault := map[*Opt]bool{}
	for _, o := range d.Opts {
		if o.T.IsFunc() || !o.Val.IsValid() {
			continue
		}
		if r.Chance(1, 4) {
			atDefault[o] = true // leave the default in place
		} else {
			nv := c12Value(r, o)
			o.Val.Set(nv)
		}
		cp := reflect.New(o.T.GoType()).Elem()
		cp.Set(o.Val)
		chosen[o] = cp
	}
	// -0 and +0 are equal values (an option holding -0 "equals its default" 0 and is legitimately omitted)
	canon0 := func(v reflect.Value) string { return strings.ReplaceAll(Canon(v), "f8000000000000000", "f0") }
	before := map[*Opt]string{}
	for o, v := range chosen {
		before[o] = canon0(v)
	}
	var buf bytes.Buffer
	if pi := safely(func() { flags.NewIniParser(a.P).Write(&buf, wopts) }); pi != nil {
		c.Violate("panic:write:"+panicSite(pi.Stack), "IniParser.Write panicked: %s", pi.Value)
		return
	}
	text := buf.String()
	c.Count("ini_bytes_written", int64(len(text)))
	if c.K%11 == 6 && c.W.Tier != "race" {
		// the file route: WriteFile over an existing, longer file must leave exactly what Write produces, and
		// ParseFile must read it like Parse reads the text
		path := filepath.Join(os.TempDir(), fmt.Sprintf("vh-c12-%d-%d.ini", os.Getpid(), c.K))
		c.Defer(func() { os.Remove(path) })
		stale := text + "\n; left over from an earlier, longer version of the file\n" + strings.Repeat("; padding\n", r.Range(1, 40)) + "zz_stale_option = 1\n"
		if err := os.WriteFile(path, []byte(stale), 0600); err == nil {
			var werr error
			if pi := safely(func() { werr = flags.NewIniParser(a.P).WriteFile(path, wopts) }); pi != nil {
				c.Violate("panic:write-file", "IniParser.WriteFile panicked: %s", pi.Value)
				return
			}
			got, rerr := os.ReadFile(path)
			if werr != nil || rerr != nil {
				c.Violate("write-file:error", "WriteFile/ReadFile failed: %v / %v", werr, rerr)
				return
			}
			if string(got) != text {
				c.Violate("write-file:content", "WriteFile over an existing file of %d bytes left %d bytes, Write produces %d bytes; common prefix %d bytes; tail %q", len(stale), len(got), len(text), commonPrefix(string(got), text), clip(string(got[minInt(len(got), len(text)):]), 120))
				return
			}
			c.Count("files_written", 1)
		}
	}
	c.Case(func() interface{} {
		vals := map[string]string{}
		for o, v := range chosen {
			vals[o.Field] = clip(display(v), 300)
		}
		return map[string]interface{}{"declaration": d.Describe(), "write_options": fmt.Sprintf("IncludeDefaults=%v CommentDefaults=%v IncludeComments=%v", m&1 != 0, m&2 != 0, m&4 != 0), "values": vals, "ini": clip(text, 3000)}
	})
	// parser B: fresh, same declarations
	bb := d.Build()
	var rerr error
	if pi := safely(func() { rerr = flags.NewIniParser(bb.P).Parse(strings.NewReader(text)) }); pi != nil {
		c.Violate("panic:read:"+panicSite(pi.Stack), "IniParser.Parse of the written text panicked: %s", pi.Value)
		return
	}
	if rerr != nil {
		// name the value class that is likely responsible: the option on the reported line
		cls := "unknown"
		if ie, ok := rerr.(*flags.IniError); ok {
			lines := strings.Split(text, "\n")
			if int(ie.LineNumber) >= 1 && int(ie.LineNumber) <= len(lines) {
				ln := lines[ie.LineNumber-1]
				for o, v := range chosen {
					name := o.Field
					if o.IniName != "" {
						name = o.IniName
					}
					if strings.HasPrefix(strings.TrimSpace(ln), name+" =") {
						cls = c12Class(v)
						if atDefault[o] {
							cls += ":at-default"
						}
					}
				}
			}
		}
		c.Violate("read-error:"+cls, "reading the written INI failed: %v", rerr)
		return
	}
	safely(func() { bb.P.ParseArgs(nil) })
	compared := 0
	for _, o := range d.Opts {
		if !c12Written(o) || !o.Val.IsValid() {
			continue
		}
		if _, ok := before[o]; !ok {
			continue
		}
		compared++
		if got := canon0(o.Val); got != before[o] {
			cls := c12Class(chosen[o])
			if atDefault[o] {
				cls += ":at-default"
			}
			c.Violate(fmt.Sprintf("value-changed:%s:%s", o.T.String(), cls), "option %s (%s): written %s, read back %s (write options %d)", o.Field, o.T, clip(before[o], 300), clip(got, 300), m)
			return
		}
	}
	c.Count("options_compared", int64(compared))
	if compared == 0 {
		return
	}
	c.Held(fmt.Sprintf("wopts=%d/cmds=%d", m, minInt(len(d.Cmds)-1, 3)), fmt.Sprintf("opts=%d bytes=%d", compared, len(text)/200))
}

func init() {
	register(&Property{
		ID:    "C12",
		Title: "INI write/read round trip",
		Cases: func(tier string) int64 {
			switch tier {
			case "thorough":
				return 1200000
			case "race":
				return 0
			}
			return 40000
		},
		Run:              c12Run,
		MinNontrivial:    300,
		DeathIsViolation: true,
		Rule: "1 case in 16: two identical parsers built through the API only (1-3 options registered with AddOption on the parser / a namespaced group): values set by a parse, written with one of the 8 IniOptions, read into the twin, all variables compared. case k: write options = k mod 8 (all combinations of IncludeDefaults, CommentDefaults, IncludeComments); a random declaration (nested groups, commands to depth 3 by tag/AddCommand/Commander, ini-name, no-ini, hidden marks, default tags, integer bases) over 36 option types; parser A applies defaults, then 3 of 4 options receive a hostile current value (strings from a 50-entry hostile table incl. surrounding blanks, quotes, control and non-ASCII characters, invalid UTF-8, 4 kB-boundary and 70 kB lengths; integers at the limits; floats incl. +-Inf, NaN, -0, sub-normals, random bit patterns; Durations incl. min/max; slices incl. empty-string elements; maps with keys in the property's domain and unrestricted values; nil and set pointers; Marshaler types); Write -> Parse into a fresh parser B -> ParseArgs(nil). " +
			"Oracle (metamorphic): no panic, no read error, and every option that is not legitimately skipped (hidden, no-ini, callbacks, hidden groups/commands) has the same canonical value in B as in A. distinct = (write options, #commands, #options compared, size class).",
		Assumptions: []string{"an empty slice/map on an option with non-empty default tags is not reachable by parsing and is not generated", "NaN compares as NaN", "Marshaler implemented with pointer receiver is only used through pointer fields"},
		Technique:   "runtime metamorphic monitor: write -> read round trip on fresh parsers with value snapshots compared; hostile value workload",
		LevelText:   "Exploration: all 8 IniOptions combinations at every seed over random declarations and a hostile value alphabet; the relation needs no expected text, so the oracle demands exactly what the statement says.",
		LevelNote:   "Trusted: the canonical value rendering and the judgement of which options the writer may skip.",
		DesignRef:   "§4 C12",
	})
}

func commonPrefix(a, b string) int {
	i := 0
	for i < len(a) && i < len(b) && a[i] == b[i] {
		i++
	}
	return i
}

// ---- declarations made of NAMED struct types --------------------------------------------------------------
// (reflect.StructOf can only make unnamed types; programs share one named options struct between several
// groups and commands, which is what this stratum declares)

type c12Conn struct {
	Host  string            `long:"host" description:"host name"`
	Port  int               `long:"port" default:"5432"`
	Tags  []string          `long:"tag" ini-name:"tags"`
	Attrs map[string]string `long:"attr"`
	Quiet bool              `long:"quiet"`
}

type c12NamedRun struct {
	Store c12Conn `group:"Store" namespace:"store"`
	Cache c12Conn `group:"Cache" namespace:"cache"`
}

type c12NamedRoot struct {
	Verbose bool        `short:"v" long:"verbose"`
	Primary c12Conn     `group:"Primary" namespace:"primary"`
	Replica c12Conn     `group:"Replica" namespace:"replica"`
	Run     c12NamedRun `command:"run" subcommands-optional:"true"`
}

func (x *c12NamedRoot) conns() map[string]*c12Conn {
	return map[string]*c12Conn{"Primary": &x.Primary, "Replica": &x.Replica, "run.Store": &x.Run.Store, "run.Cache": &x.Run.Cache}
}

// c12Named: a settings file written by hand (keys spelled by field name, namespaced long name, ini-name or short
// name) is loaded, saved and loaded again into a fresh parser: every group gets its own values back.
func c12Named(c *Ctx, wopts flags.IniOptions) {
	r := c.R
	secs := []string{"Primary", "Replica", "run.Store", "run.Cache"}
	ns := map[string]string{"Primary": "primary", "Replica": "replica", "run.Store": "store", "run.Cache": "cache"}
	var sb strings.Builder
	want := map[string]string{}
	for _, i := range r.Perm(len(secs)) {
		sec := secs[i]
		if r.Chance(1, 5) {
			continue
		}
		sb.WriteString("[" + sec + "]\n")
		pick := func(forms ...string) string { return forms[r.Intn(len(forms))] }
		if r.Chance(4, 5) {
			v := fmt.Sprintf("h%d.%s", r.Intn(1000), ns[sec])
			sb.WriteString(pick("Host", ns[sec]+".host") + " = " + v + "\n")
			want[sec+"/Host"] = v
		}
		if r.Chance(3, 5) {
			v := 1000 + r.Intn(60000)
			sb.WriteString(pick("Port", ns[sec]+".port") + " = " + fmt.Sprint(v) + "\n")
			want[sec+"/Port"] = fmt.Sprint(v)
		}
		n := r.Intn(3)
		var tags []string
		for j := 0; j < n; j++ {
			v := fmt.Sprintf("t%d-%s", r.Intn(100), ns[sec])
			sb.WriteString(pick("Tags", "tags", "TAGS", ns[sec]+".tag") + " = " + v + "\n")
			tags = append(tags, v)
		}
		if n > 0 {
			want[sec+"/Tags"] = fmt.Sprintf("%q", tags)
		}
		if r.Chance(2, 5) {
			v := fmt.Sprintf("k%d:v-%s", r.Intn(5), ns[sec])
			sb.WriteString(pick("Attrs", ns[sec]+".attr") + " = " + v + "\n")
			want[sec+"/Attrs"] = v
		}
		if r.Chance(1, 3) {
			sb.WriteString(pick("Quiet", ns[sec]+".quiet") + " = true\n")
			want[sec+"/Quiet"] = "true"
		}
	}
	text := sb.String()
	snap := func(x *c12NamedRoot) map[string]string {
		m := map[string]string{}
		for sec, cn := range x.conns() {
			m[sec+"/Host"] = cn.Host
			m[sec+"/Port"] = fmt.Sprint(cn.Port)
			m[sec+"/Tags"] = fmt.Sprintf("%q", cn.Tags)
			var kv []string
			for k, v := range cn.Attrs {
				kv = append(kv, k+":"+v)
			}
			sort.Strings(kv)
			m[sec+"/Attrs"] = strings.Join(kv, ",")
			m[sec+"/Quiet"] = fmt.Sprint(cn.Quiet)
		}
		return m
	}
	var a, b c12NamedRoot
	var out bytes.Buffer
	var err1, err2 error
	c.Case(func() interface{} {
		return map[string]interface{}{"declaration": "named struct types: c12Conn shared by the groups Primary/Replica (root) and Store/Cache (command run)", "hand_written_ini": text, "write_options": int(wopts)}
	})
	pi := safely(func() {
		pa := flags.NewParser(&a, flags.None)
		pa.ParseArgs(nil)
		err1 = flags.NewIniParser(pa).Parse(strings.NewReader(text))
		if err1 != nil {
			return
		}
		flags.NewIniParser(pa).Write(&out, wopts)
		pb := flags.NewParser(&b, flags.None)
		pb.ParseArgs(nil)
		err2 = flags.NewIniParser(pb).Parse(strings.NewReader(out.String()))
	})
	if pi != nil {
		c.Violate("panic:named-types", "load / save / load panicked: %s", pi.Value)
		return
	}
	if err1 != nil {
		c.Violate("named-types:hand-written-file-rejected", "the hand-written file was rejected: %v", err1)
		return
	}
	c.Note("written_ini", clip(out.String(), 3000))
	if err2 != nil {
		c.Violate("named-types:reread-error", "a fresh parser over the same declaration rejects the written file: %v", err2)
		return
	}
	sa, sb2 := snap(&a), snap(&b)
	for k, w := range want {
		if k[len(k)-5:] == "Attrs" {
			if sa[k] != w {
				c.Violate("named-types:first-load", "%s: the file says %q, the field holds %q", k, w, sa[k])
				return
			}
		} else if sa[k] != w {
			c.Violate("named-types:first-load", "%s: the file says %s, the field holds %s", k, w, sa[k])
			return
		}
	}
	var ks []string
	for k := range sa {
		ks = append(ks, k)
	}
	sort.Strings(ks)
	for _, k := range ks {
		if sa[k] != sb2[k] {
			c.Violate("named-types:roundtrip", "%s holds %s before the save and %s after the reload", k, sa[k], sb2[k])
			return
		}
	}
	c.Held("named-struct-types", fmt.Sprintf("entries=%d wopts=%d", len(want), int(wopts)))
}
