package main

import (
	"bufio"
	"encoding/json"
	"fmt"
	"os"
	"path/filepath"
	"sort"
)

func selftestExtra() int { return 0 }

// writeManifest regenerates /verif/MANIFEST.json from the property registry.
func writeManifest() {
	root := verifRoot()
	var allIDs []string
	if f, err := os.Open(filepath.Join(root, "properties.jsonl")); err == nil {
		sc := bufio.NewScanner(f)
		sc.Buffer(make([]byte, 1<<20), 1<<22)
		for sc.Scan() {
			var p struct {
				ID string `json:"id"`
			}
			if json.Unmarshal(sc.Bytes(), &p) == nil && p.ID != "" {
				allIDs = append(allIDs, p.ID)
			}
		}
		f.Close()
	}
	sort.Strings(allIDs)
	var checks []map[string]interface{}
	var na []map[string]string
	var served []string
	for _, id := range allIDs {
		p := registry[id]
		if p == nil {
			na = append(na, map[string]string{"property_id": id, "reason": "check not built yet (runtime monitoring applies; see DESIGN.md §4)"})
			continue
		}
		served = append(served, id)
		checks = append(checks, map[string]interface{}{
			"property_id":         id,
			"quick_cmd":           "./check " + id + " quick",
			"thorough_cmd":        "./check " + id + " thorough",
			"evidence_file":       "/verif/evidence/" + id + ".json",
			"replay_cmd_template": "./check " + id + " --replay {path}",
			"engine":              "vh",
			"level_claimed":       map[string]string{"category": "exploration", "text": p.LevelText, "design_ref": "DESIGN.md " + p.DesignRef},
			"level_note":          p.LevelNote,
			"technique":           p.Technique,
		})
	}
	m := map[string]interface{}{
		"version":   1,
		"setup_cmd": "./setup.sh",
		"hooks": map[string]interface{}{
			"guard":            "verif",
			"enable":           "go build -tags verif (no hook commits exist: every observation point is reachable from the public API; the harness is built with the tag for uniformity)",
			"baseline_off_cmd": "cd /repo && GOFLAGS=-mod=mod GOPROXY=off GOSUMDB=off go test -vet=off -count=1 ./...",
			"source_commits":   []string{},
			"add_only":         true,
		},
		"engines": []map[string]interface{}{{
			"name": "vh", "path": "/verif/harness", "serves_properties": served,
			"kind_free_text": "single Go harness binary built against /repo's working tree (replace directive): seeded workload generators (reflect.StructOf declarations, intent-rendered and hostile argument vectors, INI texts), child process per batch with journal/watchdog, observers (value snapshots, call logs, fd-level stdout/stderr capture, pty-controlled terminal width, panic recovery), independent reference functions and per-property oracles; Go race detector for the concurrent re-runs of the thorough tier",
		}},
		"checks":         checks,
		"notes":          "Exit codes of every check: 0 = held on everything explored (KNOWN-FINDING lines possible), 1 = VIOLATION line(s) printed, 2 = the check itself is broken/inconclusive (never a property verdict). VERIF_SEED selects the seed (default 1). Fixed case counts per tier; no oracle reads a clock.",
		"not_applicable": na,
	}
	if na == nil {
		m["not_applicable"] = []map[string]string{}
	}
	b, _ := json.MarshalIndent(m, "", " ")
	if err := os.WriteFile(filepath.Join(root, "MANIFEST.json"), append(b, '\n'), 0o644); err != nil {
		fmt.Fprintln(os.Stderr, err)
		os.Exit(2)
	}
	fmt.Printf("MANIFEST.json: %d checks, %d not yet claimed\n", len(checks), len(na))
}
