package main

func writeManifest() {}

func selftestExtra() int { return 0 }
