package main

import (
	"fmt"
	"reflect"
	"strconv"
	"strings"

	flags "github.com/jessevdk/go-flags"
)

// ---------------------------------------------------------------------------
// Declaration model: a plain data tree that is turned into real Go struct types with reflect.StructOf
// ---------------------------------------------------------------------------

type Opt struct {
	ID             int
	Field          string
	Short          rune
	Long           string
	T              TypeSpec
	Defaults       []string
	Env            string
	EnvDelim       string
	Required       bool
	Optional       bool
	OptionalValues []string
	Choices        []string
	Base           int
	// FO: the live option (bound by resolveLive)
	FO *flags.Option
	// EnvSet: the harness has put this text into the option's environment variable for the current case
	EnvSet *string
	// TruthText: the spelling of the required / optional / hidden marks ("" = the usual "true"/"yes"); any text
	// other than "", "false", "no" and "0" - exactly so spelled - sets a mark
	TruthText       string
	NoUnquote       bool
	Hidden          bool
	ValueName       string
	Desc            string
	DefaultMask     string
	IniName         string
	NoIni           bool
	RawTag          string // if non-empty, used verbatim instead of the rendered tag (C19)
	CallbackErr     bool   // the callback returns a plain (non-flags) error
	ProgChoicesFrom int    // >0: choices[ProgChoicesFrom:] are appended to the flags.Option after scanning, the first ones come from tags
	Prog            bool   // required / choices / hidden / default-mask are set on the flags.Option after scanning, not by tags

	Grp *Grp
	Cmd *Cmd

	// Initial is the pre-existing content stored in the field before the parser is built (nil = zero value)
	Initial        []string      // texts converted through the reference functions (multi: several)
	EnvDelimViaAPI bool          // the delimiter is not declared by tag: the program assigns Option.EnvDefaultDelim after the parser is built
	initAlias      reflect.Value // the program's own reference to the list / map it stored (set by setInitial)
	initCanon      string

	idx int
	Val reflect.Value
}

type PlainField struct {
	Field string
	Kind  int // 0 string, 1 int, 2 []string, 3 map[string]int, 4 struct{A int; B string}
	idx   int
	Val   reflect.Value
	Init  string // canonical rendering of the canary value
}

// NoFlagField: a struct-typed field tagged no-flag whose inner fields carry option tags; none of them may
// become an option, and the inner values must never change.
type NoFlagField struct {
	Field string
	Long  string
	Short rune
	idx   int
	Val   reflect.Value
}

type Grp struct {
	NoFlag     []*NoFlagField
	Field      string
	Desc       string
	LongDesc   string
	Namespace  string
	EnvNS      string
	Hidden     bool
	Ptr        bool // declared as pointer-to-struct field
	NilPtr     bool // (inline pointer structs of the root / of tag-declared commands) left nil by the program: go-flags allocates it
	NoOwn      bool // the struct has no option fields of its own, only nested groups
	ByAddGroup bool // attached with Command.AddGroup instead of a group: tag
	// Inline: a struct-typed (or pointer-to-struct) field WITHOUT a group tag: its option fields belong to the
	// enclosing group (same section, same heading, same namespace) - the usual way of sharing common options
	Inline bool
	// Late: registered with AddGroup after the parser was built (and possibly used); LateVia "command" =
	// Parser/Command.AddGroup on the owning command, "group" = Group.AddGroup on the parent group
	Late    bool
	LateVia string
	Opts    []*Opt
	Subs    []*Grp
	Plain   []*PlainField
	Parent  *Grp
	Cmd     *Cmd

	idx int
	typ reflect.Type
	val reflect.Value // struct value (addressable) once instantiated
	FG  *flags.Group
}

type PosArg struct {
	Field     string
	Name      string // positional-arg-name ("" = field name)
	T         TypeSpec
	Base      int    // base tag on an integer positional (0 = none)
	Req       string // required tag text on the field ("" none, "yes", "2", "1-3")
	ReqViaAPI bool   // the counts are not declared by tag but assigned through Command.Args()[i].Required / RequiredMaximum
	Desc      string
	// PtrSlice: a positional declared as *[]string: NOT a list - it takes exactly one token (stored as a
	// one-element slice behind the pointer) and then gives way to the next positional
	PtrSlice bool
	// NamedSlice: a rest positional declared with the named slice type StrList instead of []string
	NamedSlice bool
	// UnmSlice (with NamedSlice): the named slice type is AccList, which also implements Unmarshaler (each token is
	// handed to UnmarshalFlag, which appends it): still a list that takes every remaining argument
	UnmSlice bool
	// Embedded (with NamedSlice, not UnmSlice): the field is embedded - declared by its type name StrList alone
	Embedded bool
	// ExtraLong: a long: tag on the positional field (it must not turn the field into an option)
	ExtraLong string
	idx       int
	Val       reflect.Value
}

func (a *PosArg) GoType() reflect.Type {
	if a.PtrSlice {
		return reflect.PtrTo(reflect.TypeOf([]string(nil)))
	}
	if a.NamedSlice && a.UnmSlice {
		return reflect.TypeOf(AccList(nil))
	}
	if a.NamedSlice {
		return reflect.TypeOf(StrList(nil))
	}
	return a.T.GoType()
}

type PosDecl struct {
	Field    string
	Required bool
	Args     []*PosArg
	// Split > 0: Args[Split:] are declared in a second positional-args struct of the same command
	// (the positionals of a command are the concatenation of all its positional-args structs)
	Split int
	idx   int
	idx2  int
}

func (a *PosArg) DisplayName() string {
	if a.Name != "" {
		return a.Name
	}
	return a.Field
}

func (a *PosArg) IsRest() bool { return a.T.W == WSlice || a.T.W == WSlicePtr }

type Cmd struct {
	ID          int
	Name        string
	Aliases     []string
	SubOptional bool
	SubOptText  string // spelling of the subcommands-optional tag ("" = "true")
	Hidden      bool
	Desc        string
	LongDesc    string
	ByTag       bool
	Exec        bool
	ExecErr     bool // Execute returns a sentinel error
	ExecHelp    bool // Execute returns a *flags.Error of type ErrHelp (the application's own help)
	G           *Grp // the command's own struct (for Exec commands: the first AddGroup'ed struct)
	Pos         *PosDecl
	Subs        []*Cmd
	Parent      *Cmd
	Depth       int
	Field       string // field name when ByTag
	idx         int

	FC   *flags.Command
	Node *ExecNode
}

type Decl struct {
	nilPtrOK  bool   // (during Build) the structs being instantiated belong to the root value: nil inline pointers may stay nil
	inLateNil bool   // (during Build) inside a struct that go-flags allocated: its contents are set up after the build
	lateErr   string // (during Build) a nil inline pointer struct that go-flags did not allocate
	Options   flags.Options
	NsDelim   string
	EnvDelim  string
	Root      *Cmd
	Opts      []*Opt
	Cmds      []*Cmd
	Grps      []*Grp
	nextID    int
	// CacheTypes: the model will not change any more; reuse the struct types across Build calls
	CacheTypes bool
}

func (d *Decl) NewID() int { d.nextID++; return d.nextID }

// ---- call log -------------------------------------------------------------

type CallEntry struct {
	Kind string   `json:"kind"` // callback | execute | handler | unknown | completion
	ID   int      `json:"id"`
	Args []string `json:"args"`
}

type CallLog struct{ E []CallEntry }

func (l *CallLog) add(kind string, id int, args []string) {
	cp := make([]string, len(args))
	copy(cp, args)
	l.E = append(l.E, CallEntry{kind, id, cp})
}

var callbackErr error = fmt.Errorf("callback failed: 100%% plain error")
var callbackErrWrapping error = fmt.Errorf("callback failed, nested parser said: %w", &flags.Error{Type: flags.ErrRequired, Message: "inner requirement"})

type sentinelErr struct{ id int }

func (s *sentinelErr) Error() string { return fmt.Sprintf("sentinel error of node %d", s.id) }

// ExecNode is the fixed-pool command type that implements Commander. Its fields are unexported so that
// go-flags does not scan them.
type ExecNode struct {
	id    int
	log   *CallLog
	ret   error
	after func() // what the command does besides being logged (e.g. it parses another line with the same parser)
}

func (e *ExecNode) Execute(args []string) error {
	e.log.add("execute", e.id, args)
	if e.after != nil {
		e.after()
	}
	return e.ret
}

// ---- tag rendering --------------------------------------------------------

func tagKV(sb *strings.Builder, k, v string) {
	if sb.Len() > 0 {
		sb.WriteByte(' ')
	}
	sb.WriteString(k)
	sb.WriteByte(':')
	sb.WriteString(strconv.Quote(v))
}

func (o *Opt) Tag() string {
	if o.RawTag != "" {
		return o.RawTag
	}
	var sb strings.Builder
	if o.Short != 0 {
		tagKV(&sb, "short", string(o.Short))
	}
	if o.Long != "" {
		tagKV(&sb, "long", o.Long)
	}
	if o.Desc != "" {
		tagKV(&sb, "description", o.Desc)
	}
	for _, d := range o.Defaults {
		tagKV(&sb, "default", d)
	}
	if o.Env != "" {
		tagKV(&sb, "env", o.Env)
	}
	if o.EnvDelim != "" && !o.EnvDelimViaAPI {
		tagKV(&sb, "env-delim", o.EnvDelim)
	}
	truthy := o.TruthText
	if truthy == "" {
		truthy = "true"
	}
	if o.Required && !o.Prog {
		tagKV(&sb, "required", truthy)
	}
	if o.Optional {
		if o.TruthText != "" {
			tagKV(&sb, "optional", truthy)
		} else {
			tagKV(&sb, "optional", "yes")
		}
	}
	for _, v := range o.OptionalValues {
		tagKV(&sb, "optional-value", v)
	}
	for i, c := range o.Choices {
		if !o.Prog && !(o.ProgChoicesFrom > 0 && i >= o.ProgChoicesFrom) {
			tagKV(&sb, "choice", c)
		}
	}
	if o.Base != 0 {
		tagKV(&sb, "base", baseTag(o.Base))
	}
	if o.NoUnquote {
		tagKV(&sb, "unquote", "false")
	}
	if o.Hidden && !o.Prog {
		tagKV(&sb, "hidden", truthy)
	}
	if o.ValueName != "" {
		tagKV(&sb, "value-name", o.ValueName)
	}
	if o.DefaultMask != "" && !o.Prog {
		tagKV(&sb, "default-mask", o.DefaultMask)
	}
	if o.IniName != "" {
		tagKV(&sb, "ini-name", o.IniName)
	}
	if o.NoIni {
		// (any non-empty text marks the option - also one that reads like "off")
		tagKV(&sb, "no-ini", []string{"true", "true", "yes", "false", "no", "0", "1"}[o.ID%7])
	}
	return sb.String()
}

// Owner returns the group whose flags.Group holds g's options: g itself, or the nearest enclosing group that
// is not inline.
func (g *Grp) Owner() *Grp {
	for g.Inline && g.Parent != nil {
		g = g.Parent
	}
	return g
}

func (g *Grp) Tag() string {
	var sb strings.Builder
	if g.Inline {
		return ""
	}
	tagKV(&sb, "group", g.Desc)
	if g.LongDesc != "" {
		tagKV(&sb, "description", g.LongDesc)
	}
	if g.Namespace != "" {
		tagKV(&sb, "namespace", g.Namespace)
	}
	if g.EnvNS != "" {
		tagKV(&sb, "env-namespace", g.EnvNS)
	}
	if g.Hidden {
		tagKV(&sb, "hidden", "true")
	}
	return sb.String()
}

func (c *Cmd) Tag() string {
	var sb strings.Builder
	tagKV(&sb, "command", c.Name)
	if c.Desc != "" {
		tagKV(&sb, "description", c.Desc)
	}
	if c.LongDesc != "" {
		tagKV(&sb, "long-description", c.LongDesc)
	}
	for _, a := range c.Aliases {
		tagKV(&sb, "alias", a)
	}
	if c.SubOptional {
		// (the mere presence of the tag makes sub-commands optional, whatever its text)
		v := c.SubOptText
		if v == "" {
			v = "true"
		}
		tagKV(&sb, "subcommands-optional", v)
	}
	if c.Hidden {
		tagKV(&sb, "hidden", "true")
	}
	return sb.String()
}

func (a *PosArg) Tag() string {
	var sb strings.Builder
	if a.Name != "" {
		tagKV(&sb, "positional-arg-name", a.Name)
	}
	if a.Req != "" && !a.ReqViaAPI {
		tagKV(&sb, "required", a.Req)
	}
	if a.Base != 0 {
		tagKV(&sb, "base", baseTag(a.Base))
	}
	if a.Desc != "" {
		tagKV(&sb, "description", a.Desc)
	}
	if a.ExtraLong != "" {
		tagKV(&sb, "long", a.ExtraLong)
	}
	return sb.String()
}

// ---- struct type construction --------------------------------------------

var plainTypes = []reflect.Type{
	reflect.TypeOf(""), reflect.TypeOf(0), reflect.TypeOf([]string(nil)), reflect.TypeOf(map[string]int(nil)),
	reflect.TypeOf(struct {
		A int
		B string
	}{}),
}

// structType builds the Go struct type of a group. cmd is non-nil when g is the struct in which the
// command's positional arguments and tag-declared sub-commands live.
func (d *Decl) structType(g *Grp, cmd *Cmd) reflect.Type {
	if d.CacheTypes && g.typ != nil {
		return g.typ // the model is frozen: field indices were assigned when the type was first built
	}
	var fs []reflect.StructField
	add := func(name string, t reflect.Type, tag string) int {
		fs = append(fs, reflect.StructField{Name: name, Type: t, Tag: reflect.StructTag(tag)})
		return len(fs) - 1
	}
	for _, pf := range g.Plain {
		pf.idx = add(pf.Field, plainTypes[pf.Kind], "")
	}
	for _, o := range g.Opts {
		o.idx = add(o.Field, o.T.GoType(), o.Tag())
	}
	for _, nf := range g.NoFlag {
		inner := reflect.StructOf([]reflect.StructField{
			{Name: "Secret", Type: tString, Tag: reflect.StructTag(`long:"` + nf.Long + `" description:"must not be an option"`)},
			{Name: "Level", Type: reflect.TypeOf(0), Tag: reflect.StructTag(`long:"` + nf.Long + `-level" default:"7"`)},
		})
		nf.idx = add(nf.Field, inner, `no-flag:"true"`)
	}
	for _, sg := range g.Subs {
		if sg.ByAddGroup {
			continue
		}
		st := d.structType(sg, nil)
		if sg.Ptr {
			sg.idx = add(sg.Field, reflect.PtrTo(st), sg.Tag())
		} else {
			sg.idx = add(sg.Field, st, sg.Tag())
		}
	}
	if cmd != nil {
		if cmd.Pos != nil {
			var pfs, pfs2 []reflect.StructField
			for i, a := range cmd.Pos.Args {
				sf := reflect.StructField{Name: a.Field, Type: a.GoType(), Tag: reflect.StructTag(a.Tag())}
				if a.Embedded {
					// an embedded field of a named list type: an exported, settable field like any other
					sf.Anonymous = true
				}
				if cmd.Pos.Split > 0 && i >= cmd.Pos.Split {
					a.idx = len(pfs2)
					pfs2 = append(pfs2, sf)
				} else {
					a.idx = len(pfs)
					pfs = append(pfs, sf)
				}
			}
			tag := `positional-args:"yes"`
			if cmd.Pos.Required {
				tag += ` required:"yes"`
			}
			cmd.Pos.idx = add(cmd.Pos.Field, reflect.StructOf(pfs), tag)
			if len(pfs2) > 0 {
				cmd.Pos.idx2 = add(cmd.Pos.Field+"B", reflect.StructOf(pfs2), tag)
			}
		}
		for _, sc := range cmd.Subs {
			if !sc.ByTag {
				continue
			}
			st := d.structType(sc.G, sc)
			sc.idx = add(sc.Field, st, sc.Tag())
		}
	}
	g.typ = reflect.StructOf(fs)
	return g.typ
}

// ---- instantiation --------------------------------------------------------

type Built struct {
	D      *Decl
	P      *flags.Parser
	Log    *CallLog
	Err    error // first error reported by AddCommand/AddGroup while assembling
	RootPV reflect.Value
}

func plainCanary(pf *PlainField, id int) reflect.Value {
	switch pf.Kind {
	case 0:
		return reflect.ValueOf(fmt.Sprintf("canary-%d", id))
	case 1:
		return reflect.ValueOf(7700 + id)
	case 2:
		return reflect.ValueOf([]string{"c", strconv.Itoa(id)})
	case 3:
		return reflect.ValueOf(map[string]int{"c": id})
	}
	v := reflect.New(plainTypes[4]).Elem()
	v.Field(0).SetInt(int64(id))
	v.Field(1).SetString("canary")
	return v
}

// instantiate fills the addressable struct value sv (of type g.typ) of group g.
func (d *Decl) instantiate(g *Grp, cmd *Cmd, sv reflect.Value, log *CallLog, late bool) {
	g.val = sv
	for i, pf := range g.Plain {
		pf.Val = sv.Field(pf.idx)
		if !late {
			pf.Val.Set(plainCanary(pf, i+1))
			pf.Init = Canon(pf.Val)
		}
	}
	for _, nf := range g.NoFlag {
		nf.Val = sv.Field(nf.idx)
		if !late {
			nf.Val.Field(0).SetString("nf-canary")
			nf.Val.Field(1).SetInt(41)
		}
	}
	for _, o := range g.Opts {
		o.Val = sv.Field(o.idx)
		if late {
			continue
		}
		if o.T.IsFunc() {
			o.Val.Set(makeCallback(o, log))
		} else if len(o.Initial) > 0 {
			setInitial(o)
		} else if o.T.K == KMode && o.T.W == WPtr {
			// the program allocates the value and gives it its state (the list of modes it completes from)
			o.Val.Set(reflect.ValueOf(&ModeVal{allowed: vocabulary}))
		}
	}
	for _, sg := range g.Subs {
		if sg.ByAddGroup {
			continue
		}
		f := sv.Field(sg.idx)
		if sg.Ptr && sg.NilPtr && d.nilPtrOK {
			if !late && !d.inLateNil {
				continue // left nil until the parser has been built
			}
			if f.IsNil() {
				if d.lateErr == "" {
					d.lateErr = fmt.Sprintf("the nil pointer field %s (an untagged struct that declares options / groups) was not allocated and stored while the declaration was read: whatever is parsed into it is lost", sg.Field)
				}
				continue
			}
			was := d.inLateNil
			d.inLateNil = true
			d.instantiate(sg, nil, f.Elem(), log, false)
			d.inLateNil = was
			continue
		}
		if sg.Ptr {
			if f.IsNil() {
				// pointer groups are allocated by the program before the parser is built
				f.Set(reflect.New(f.Type().Elem()))
			}
			d.instantiate(sg, nil, f.Elem(), log, late)
		} else {
			d.instantiate(sg, nil, f, log, late)
		}
	}
	if cmd != nil {
		if cmd.Pos != nil {
			pv := sv.Field(cmd.Pos.idx)
			for i, a := range cmd.Pos.Args {
				if cmd.Pos.Split > 0 && i >= cmd.Pos.Split {
					a.Val = sv.Field(cmd.Pos.idx2).Field(a.idx)
				} else {
					a.Val = pv.Field(a.idx)
				}
			}
		}
		for _, sc := range cmd.Subs {
			if sc.ByTag {
				d.instantiate(sc.G, sc, sv.Field(sc.idx), log, late)
			}
		}
	}
}

func allOptsOf(g *Grp) []*Opt {
	r := append([]*Opt{}, g.Opts...)
	for _, s := range g.Subs {
		r = append(r, allOptsOf(s)...)
	}
	return r
}

func makeCallback(o *Opt, log *CallLog) reflect.Value {
	id := o.ID
	return reflect.MakeFunc(o.T.GoType(), func(args []reflect.Value) []reflect.Value {
		var as []string
		for _, a := range args {
			as = append(as, Canon(a))
		}
		log.add("callback", id, as)
		if o.T.W == WFunc1PErr {
			return []reflect.Value{reflect.Zero(reflect.TypeOf((*PErr)(nil)))}
		}
		if o.T.W == WFunc1Err || o.T.W == WFunc0Err {
			if o.CallbackErr {
				if o.ID%2 == 1 {
					// an ordinary error that WRAPS a *flags.Error (e.g. the failure of a nested parser, passed on with
					// %w): still an ordinary error
					return []reflect.Value{reflect.ValueOf(&callbackErrWrapping).Elem()}
				}
				return []reflect.Value{reflect.ValueOf(&callbackErr).Elem()}
			}
			return []reflect.Value{reflect.Zero(tError)}
		}
		return nil
	})
}

// setInitial stores pre-existing content into a non-callback option field through the reference conversions.
func setInitial(o *Opt) {
	v := o.Val
	v.Set(reflect.Zero(v.Type()))
	for _, txt := range o.Initial {
		applyRef(v, o.T, o.Base, txt)
	}
	o.initAlias, o.initCanon = reflect.Value{}, ""
	switch v.Kind() {
	case reflect.Slice:
		if v.Len() > 0 {
			// the program keeps using the list it stored (e.g. a shared table of defaults): the field gets it with
			// spare capacity, the program's own handle on the same storage is kept aside
			nv := reflect.MakeSlice(v.Type(), v.Len(), v.Len()+4)
			reflect.Copy(nv, v)
			v.Set(nv)
			o.initAlias, o.initCanon = reflect.ValueOf(nv.Interface()), Canon(nv)
		}
	case reflect.Map:
		if !v.IsNil() {
			o.initAlias, o.initCanon = reflect.ValueOf(v.Interface()), Canon(v)
		}
	}
}

// aliasDamage reports the first option whose pre-existing list or map - as the program still sees it through its
// own reference - no longer holds what the program put there. The parser may give the FIELD a new value; what
// the program stored before belongs to the program.
func aliasDamage(d *Decl) string {
	for _, o := range d.Opts {
		if o.initAlias.IsValid() {
			if now := Canon(o.initAlias); now != o.initCanon {
				return fmt.Sprintf("the %s the program stored into %s before parsing held %s; through the program's own reference it now reads %s", o.initAlias.Kind(), o.Field, o.initCanon, now)
			}
		}
	}
	return ""
}

func baseTag(b int) string {
	if b == BaseAuto {
		return "0"
	}
	return strconv.Itoa(b)
}

// applyRef applies one textual value to a shadow/initial value with the semantics the property states:
// scalar = replace, slice = append, map = insert/overwrite. It returns false if the text has no reference value.
func applyRef(v reflect.Value, t TypeSpec, base int, txt string) bool {
	switch t.W {
	case WScalar:
		if t.K == KBag {
			// the accumulating unmarshaler appends to what the field holds
			b := v.Interface().(Bag)
			b.items = append(append([]string{}, b.items...), txt)
			v.Set(reflect.ValueOf(b))
			return true
		}
		r := RefScalar(t.K, base, txt)
		if !r.HasVal {
			return false
		}
		v.Set(r.Val)
	case WPtr:
		r := RefScalar(t.K, base, txt)
		if !r.HasVal {
			return false
		}
		p := reflect.New(scalarType(t.K))
		p.Elem().Set(r.Val)
		v.Set(p)
	case WPtrPtr:
		r := RefScalar(t.K, base, txt)
		if !r.HasVal {
			return false
		}
		p := reflect.New(scalarType(t.K))
		p.Elem().Set(r.Val)
		pp := reflect.New(p.Type())
		pp.Elem().Set(p)
		v.Set(pp)
	case WPtrSlice:
		r := RefScalar(t.K, base, txt)
		if !r.HasVal {
			return false
		}
		if v.IsNil() {
			v.Set(reflect.New(v.Type().Elem()))
		}
		v.Elem().Set(reflect.Append(v.Elem(), r.Val))
	case WSlice:
		r := RefScalar(t.K, base, txt)
		if !r.HasVal {
			return false
		}
		v.Set(reflect.Append(v, r.Val))
	case WSlicePtr:
		r := RefScalar(t.K, base, txt)
		if !r.HasVal {
			return false
		}
		p := reflect.New(scalarType(t.K))
		p.Elem().Set(r.Val)
		v.Set(reflect.Append(v, p))
	case WMap:
		k, val, _ := RefMapEntry(t, base, txt)
		if !k.HasVal || !val.HasVal {
			return false
		}
		if v.IsNil() {
			v.Set(reflect.MakeMap(v.Type()))
		}
		v.SetMapIndex(k.Val, val.Val)
	default:
		return false
	}
	return true
}

// Build turns the model into a live parser. The parser is created with NewParser (so the root struct
// becomes "Application Options"), AddCommand'ed commands are attached programmatically.
func (d *Decl) Build() *Built {
	log := &CallLog{}
	b := &Built{D: d, Log: log}
	root := d.Root
	rt := d.structType(root.G, root)
	pv := reflect.New(rt)
	b.RootPV = pv
	d.nilPtrOK, d.lateErr = true, ""
	d.instantiate(root.G, root, pv.Elem(), log, false)
	d.nilPtrOK = false
	p := flags.NewParser(pv.Interface(), d.Options)
	p.Name = "app"
	if d.NsDelim != "" {
		p.NamespaceDelimiter = d.NsDelim
	}
	if d.EnvDelim != "" {
		p.EnvNamespaceDelimiter = d.EnvDelim
	}
	b.P = p
	if gs := p.Command.Group.Groups(); len(gs) > 0 && (root.G.Namespace != "" || root.G.EnvNS != "") {
		// (the root struct has no tag of its own: a namespace on it can only be set programmatically)
		gs[0].Namespace = root.G.Namespace
		gs[0].EnvNamespace = root.G.EnvNS
	}
	p.SubcommandsOptional = root.SubOptional
	root.FC = p.Command
	d.attach(b, root, log)
	// resolve pointer groups that go-flags allocated, and flags.Group handles
	d.nilPtrOK = true
	d.instantiate(root.G, root, pv.Elem(), log, true)
	d.nilPtrOK = false
	if d.lateErr != "" && b.Err == nil {
		b.Err = fmt.Errorf("%s", d.lateErr)
	}
	d.applyProgAttrs(b)
	// groups that the model registers late (history stages): attached last, in registration order
	hasLate := false
	for _, g := range d.Grps {
		hasLate = hasLate || g.Late
	}
	if hasLate && b.Err == nil {
		if why := d.resolveLive(b); why != "" {
			b.Err = fmt.Errorf("late groups cannot be attached: %s", why)
			return b
		}
		for _, g := range d.Grps {
			if g.Late {
				if err := d.attachLate(b, g); err != nil && b.Err == nil {
					b.Err = err
				}
			}
		}
	}
	return b
}

// applyProgAttrs sets required / choices / hidden / default-mask through the exported fields of the
// flags.Option of every option marked Prog (programmatic declaration instead of tags).
func (d *Decl) applyProgAttrs(b *Built) {
	for _, cm := range d.Cmds {
		if cm.Pos == nil || cm.FC == nil {
			continue
		}
		live := cm.FC.Args()
		for i, a := range cm.Pos.Args {
			if !a.ReqViaAPI || a.Req == "" || i >= len(live) {
				continue
			}
			// the same reading of the text as the tag gets: "yes" -> 1, "n" -> n, "lo-hi" -> lo..hi
			req, max := 1, -1
			rng := strings.SplitN(a.Req, "-", 2)
			if n, err := strconv.ParseInt(rng[0], 10, 32); err == nil {
				req = int(n)
			}
			if len(rng) > 1 {
				if n, err := strconv.ParseInt(rng[1], 10, 32); err == nil {
					max = int(n)
				}
			}
			live[i].Required, live[i].RequiredMaximum = req, max
		}
	}
	for _, o := range d.Opts {
		if o.ProgChoicesFrom > 0 && !o.Prog && o.Cmd.FC != nil {
			// the tag-declared choices are extended through the exported Choices field
			var fo *flags.Option
			if o.Long != "" {
				fo = o.Cmd.FC.Group.FindOptionByLongName(d.FullLong(o))
			} else if o.Short != 0 {
				fo = o.Cmd.FC.Group.FindOptionByShortName(o.Short)
			}
			if fo != nil && fo.Field().Name == o.Field {
				fo.Choices = append(fo.Choices, o.Choices[o.ProgChoicesFrom:]...)
			} else {
				o.Choices = o.Choices[:o.ProgChoicesFrom]
			}
			continue
		}
		if !o.Prog || o.Cmd.FC == nil {
			continue
		}
		var fo *flags.Option
		// search only the declaring command's own group tree
		grp := o.Cmd.FC.Group
		if o.Long != "" {
			fo = grp.FindOptionByLongName(d.FullLong(o))
		} else if o.Short != 0 {
			fo = grp.FindOptionByShortName(o.Short)
		}
		if fo == nil || fo.Field().Name != o.Field {
			o.Prog = false // not reachable through the finders (e.g. shadowed): leave it undeclared consistently
			o.Required, o.Choices, o.Hidden, o.DefaultMask = false, nil, false, ""
			continue
		}
		fo.Required = o.Required
		fo.Choices = append([]string(nil), o.Choices...)
		fo.Hidden = o.Hidden
		fo.DefaultMask = o.DefaultMask
	}
}

func (d *Decl) attach(b *Built, c *Cmd, log *CallLog) {
	for _, sc := range c.Subs {
		if sc.ByTag {
			if c.FC != nil {
				sc.FC = c.FC.Find(sc.Name)
			}
			if sc.FC != nil {
				if sc.G.Namespace != "" || sc.G.EnvNS != "" {
					sc.FC.Group.Namespace = sc.G.Namespace
					sc.FC.Group.EnvNamespace = sc.G.EnvNS
				}
				d.attach(b, sc, log)
			}
			continue
		}
		if c.FC == nil {
			continue
		}
		var fc *flags.Command
		var err error
		if sc.Exec {
			sc.Node = &ExecNode{id: sc.ID, log: log}
			if sc.ExecErr {
				sc.Node.ret = &sentinelErr{sc.ID}
			}
			if sc.ExecHelp {
				// the application answers with its own help request
				sc.Node.ret = &flags.Error{Type: flags.ErrHelp, Message: fmt.Sprintf("application help of command %d", sc.ID)}
			}
			fc, err = c.FC.AddCommand(sc.Name, sc.Desc, sc.LongDesc, sc.Node)
			if err == nil {
				st := d.structType(sc.G, sc)
				gv := reflect.New(st)
				d.instantiate(sc.G, sc, gv.Elem(), log, false)
				var fg *flags.Group
				fg, err = fc.AddGroup(sc.G.Desc, sc.G.LongDesc, gv.Interface())
				if err == nil {
					fg.Namespace = sc.G.Namespace
					fg.EnvNamespace = sc.G.EnvNS
					fg.Hidden = sc.G.Hidden
					sc.G.FG = fg
				}
				d.instantiate(sc.G, sc, gv.Elem(), log, true)
			}
		} else {
			st := d.structType(sc.G, sc)
			gv := reflect.New(st)
			d.instantiate(sc.G, sc, gv.Elem(), log, false)
			fc, err = c.FC.AddCommand(sc.Name, sc.Desc, sc.LongDesc, gv.Interface())
			d.instantiate(sc.G, sc, gv.Elem(), log, true)
		}
		if err != nil {
			if b.Err == nil {
				b.Err = err
			}
			continue
		}
		if !sc.Exec && (sc.G.Namespace != "" || sc.G.EnvNS != "") {
			fc.Group.Namespace = sc.G.Namespace
			fc.Group.EnvNamespace = sc.G.EnvNS
		}
		fc.Aliases = append([]string(nil), sc.Aliases...)
		fc.SubcommandsOptional = sc.SubOptional
		fc.Hidden = sc.Hidden
		sc.FC = fc
		d.attach(b, sc, log)
	}
}

// ---- snapshots ------------------------------------------------------------

// Snapshot renders every option field, positional field and plain field canonically.
func (d *Decl) Snapshot() map[string]string {
	m := map[string]string{}
	for _, o := range d.Opts {
		if o.Val.IsValid() {
			m["o"+strconv.Itoa(o.ID)] = Canon(o.Val)
		}
	}
	for _, c := range d.Cmds {
		if c.Pos != nil {
			for i, a := range c.Pos.Args {
				if a.Val.IsValid() {
					m[fmt.Sprintf("p%d.%d", c.ID, i)] = Canon(a.Val)
				}
			}
		}
	}
	for gi, g := range d.Grps {
		for pi, pf := range g.Plain {
			if pf.Val.IsValid() {
				m[fmt.Sprintf("plain%d.%d", gi, pi)] = Canon(pf.Val)
			}
		}
		for ni, nf := range g.NoFlag {
			if nf.Val.IsValid() {
				m[fmt.Sprintf("noflag%d.%d", gi, ni)] = Canon(nf.Val)
			}
		}
	}
	return m
}

// ---- model queries --------------------------------------------------------

// Namespaces returns the namespace chain of an option (outermost first), including those inherited
// through the owning commands' groups (a command's own group namespace is always empty).
func (o *Opt) NsChain() []string {
	var ns []string
	for g := o.Grp; g != nil; g = g.Parent {
		if g.Namespace != "" {
			ns = append([]string{g.Namespace}, ns...)
		}
	}
	return ns
}

func (o *Opt) EnvNsChain() []string {
	var ns []string
	for g := o.Grp; g != nil; g = g.Parent {
		if g.EnvNS != "" {
			ns = append([]string{g.EnvNS}, ns...)
		}
	}
	return ns
}

func (d *Decl) nsDelim() string {
	if d.NsDelim == "" {
		return "."
	}
	return d.NsDelim
}

func (d *Decl) envDelim() string {
	if d.EnvDelim == "" {
		return "_"
	}
	return d.EnvDelim
}

// FullLong is the namespaced long name as the property states it: namespaces joined by the delimiter.
func (d *Decl) FullLong(o *Opt) string {
	if o.Long == "" {
		return ""
	}
	return strings.Join(append(o.NsChain(), o.Long), d.nsDelim())
}

func (d *Decl) FullEnv(o *Opt) string {
	if o.Env == "" {
		return ""
	}
	return strings.Join(append(o.EnvNsChain(), o.Env), d.envDelim())
}

// OptString is the human-friendly form used in messages: "-s, --ns.long".
func (d *Decl) OptString(o *Opt) string {
	switch {
	case o.Short == 0 && o.Long == "":
		return "" // an option that only has an ini-name

	case o.Short != 0 && o.Long != "":
		return "-" + string(o.Short) + ", --" + d.FullLong(o)
	case o.Short != 0:
		return "-" + string(o.Short)
	default:
		return "--" + d.FullLong(o)
	}
}

// CmdOpts lists the options a command declares itself (all groups of that command).
func (c *Cmd) OwnOpts() []*Opt { return allOptsOf(c.G) }

// Chain returns the commands from the root to c.
func (c *Cmd) Chain() []*Cmd {
	var r []*Cmd
	for x := c; x != nil; x = x.Parent {
		r = append([]*Cmd{x}, r...)
	}
	return r
}

// Describe renders the declaration for samples and replay files.
func (d *Decl) Describe() interface{} {
	var f func(c *Cmd) map[string]interface{}
	var gd func(g *Grp) map[string]interface{}
	gd = func(g *Grp) map[string]interface{} {
		m := map[string]interface{}{}
		if g.Desc != "" {
			m["group"] = g.Desc
		}
		if g.Inline {
			m["untagged_struct_field"] = g.Field
		}
		if g.Namespace != "" {
			m["namespace"] = g.Namespace
		}
		if g.EnvNS != "" {
			m["env-namespace"] = g.EnvNS
		}
		if g.Hidden {
			m["hidden"] = true
		}
		if g.ByAddGroup {
			m["via"] = "AddGroup"
		}
		if g.Ptr {
			m["pointer"] = true
		}
		if g.NilPtr {
			m["pointer"] = "nil until the parser is built (tag-declared structs only)"
		}
		var os []string
		for _, o := range g.Opts {
			s := o.Field + " " + o.T.String() + " `" + o.Tag() + "`"
			if len(o.Initial) > 0 {
				s += " initial=" + fmt.Sprintf("%q", o.Initial)
			}
			os = append(os, s)
		}
		if len(os) > 0 {
			m["options"] = os
		}
		if len(g.Plain) > 0 {
			m["plain_fields"] = len(g.Plain)
		}
		var ss []interface{}
		for _, s := range g.Subs {
			ss = append(ss, gd(s))
		}
		if len(ss) > 0 {
			m["groups"] = ss
		}
		return m
	}
	f = func(c *Cmd) map[string]interface{} {
		m := map[string]interface{}{"name": c.Name}
		if len(c.Aliases) > 0 {
			m["aliases"] = c.Aliases
		}
		if c.SubOptional {
			m["subcommands-optional"] = true
		}
		if c.Hidden {
			m["hidden"] = true
		}
		if c.Exec {
			m["commander"] = true
		}
		if c.Parent != nil {
			if c.ByTag {
				m["via"] = "command: tag"
			} else {
				m["via"] = "AddCommand"
			}
		}
		m["struct"] = gd(c.G)
		if c.Pos != nil {
			var as []string
			for _, a := range c.Pos.Args {
				ts := a.T.String()
				if a.PtrSlice {
					ts = "*[]string"
				}
				if a.NamedSlice {
					ts = "StrList (named []string)"
				}
				if a.NamedSlice && a.UnmSlice {
					ts = "AccList (named []string whose UnmarshalFlag appends the argument)"
				}
				desc := a.Field + " " + ts + " `" + a.Tag() + "`"
				if a.ReqViaAPI && a.Req != "" {
					desc += " required=" + a.Req + " (assigned through Command.Args())"
				}
				as = append(as, desc)
			}
			m["positional"] = map[string]interface{}{"required": c.Pos.Required, "args": as, "second_struct_from": c.Pos.Split}
		}
		var ss []interface{}
		for _, s := range c.Subs {
			ss = append(ss, f(s))
		}
		if len(ss) > 0 {
			m["commands"] = ss
		}
		return m
	}
	return map[string]interface{}{
		"parser_options": optionsString(d.Options),
		"ns_delim":       d.nsDelim(),
		"env_delim":      d.envDelim(),
		"root":           f(d.Root),
	}
}

func optionsString(o flags.Options) string {
	var s []string
	if o&flags.HelpFlag != 0 {
		s = append(s, "HelpFlag")
	}
	if o&flags.PassDoubleDash != 0 {
		s = append(s, "PassDoubleDash")
	}
	if o&flags.IgnoreUnknown != 0 {
		s = append(s, "IgnoreUnknown")
	}
	if o&flags.PrintErrors != 0 {
		s = append(s, "PrintErrors")
	}
	if o&flags.PassAfterNonOption != 0 {
		s = append(s, "PassAfterNonOption")
	}
	if len(s) == 0 {
		return "None"
	}
	return strings.Join(s, "|")
}
