package main

import (
	"fmt"
	"strings"

	flags "github.com/jessevdk/go-flags"
)

// C10: positional arguments bind in declaration order.

func c10Cfg() *DeclCfg {
	types := []TypeSpec{{K: KString}, {K: KBool}, {K: KBool}, {K: KInt}, {K: KString, W: WSlice}, {K: KBool, W: WSlice}, {K: KFloat64}, {W: WFunc0}, {K: KDuration}}
	return &DeclCfg{
		MaxDepth: 2, MaxFan: 2, PCmds: 50, Types: types, OptsMin: 1, OptsMax: 4, SubGroupsMax: 1, PInline: 20, NestMax: 1,
		PNamespace: 20, PShortOnly: 15, PLongOnly: 15, PBase: 40,
		PPos: 70, PosMax: 5, PRest: 50, PExec: 30, PByTag: 50, PSubOptional: 60, PAliases: 20,
		ParserOpts: []flags.Options{0, flags.PassDoubleDash, flags.PassDoubleDash, flags.HelpFlag | flags.PassDoubleDash, flags.PassAfterNonOption, flags.PassDoubleDash | flags.IgnoreUnknown, flags.PassDoubleDash | flags.PassAfterNonOption, flags.PassDoubleDash | flags.PassAfterNonOption | flags.HelpFlag},
		PosTypes:   []TypeSpec{{K: KString}, {K: KString}, {K: KInt}, {K: KFloat64}, {K: KDuration}, {K: KCelsius}, {K: KUint8}, {K: KPoint}, {K: KInt, W: WMap, MapKey: KString}, {K: KString, W: WMap, MapKey: KString}},
		PNamedRest: 35, PPosSplit: 30, PPosLongTag: 10, PReqViaAPI: 25,
	}
}

func c10Run(c *Ctx) {
	cfg10 := c10Cfg()
	if c.K%10 == 9 {
		// many positional fields (more than any small fixed buffer): every one is bound, in order
		cfg10.PPos, cfg10.PosMax = 100, 14
	}
	d := GenDecl(c.Sub("d"), cfg10)
	if inHistTail(c, 40000, 1500000) {
		// help (or a man page) written before the parse must not disturb the binding order
		hc := c10Cfg()
		hc.PDesc = 50
		histCase(c, GenDecl(c.Sub("dh"), hc), []string{"none"}, []string{"help"})
		return
	}
	b := d.Build()
	if b.Err != nil {
		c.Violate("setup-error", "generated declaration rejected: %v", b.Err)
		c.Case(func() interface{} { return d.Describe() })
		return
	}
	// position of the terminator and density of interleaved options vary with k
	pterm := []int{0, 15, 40, 80}[c.K%4]
	pocc := []int{0, 25, 45}[(c.K/4)%3]
	sc := GenScenario(c.R, d, &ScenCfg{MaxItems: 14, POcc: pocc, PCluster: 5, PPos: 75 - pocc, PCmd: 12, PTerm: pterm, PQuoted: 5, HostileRaw: true, PCmdWordAsPos: 15})
	args := sc.Args()
	c.Case(caseOf(sc, args, nil))
	if sc.Exp.Unspec != "" {
		c.Unspec(sc.Exp.Unspec)
		return
	}
	if sc.NeedsCommand() {
		c.Unspec("vector ends where a sub-command is still required")
		return
	}
	if c.K%3 == 1 {
		// a program that renders its own usage text reads Command.Args() and sorts / filters what it got: the list
		// it is handed is its own, the declaration order the parser binds by is not affected
		for _, cm := range d.Cmds {
			if cm.FC == nil {
				continue
			}
			got := cm.FC.Args()
			for i, j := 0, len(got)-1; i < j; i, j = i+1, j-1 {
				got[i], got[j] = got[j], got[i]
			}
			if len(got) > 1 {
				got = append(got[:0], got[1:]...)
			}
		}
	}
	o := RunParse(b, args)
	c.Count("parses", 1)
	if o.Panic != nil {
		c.Violate("panic", "ParseArgs panicked: %s", o.Panic.Value)
		return
	}
	if o.Err != nil {
		if _, isSentinel := o.Err.(*sentinelErr); !isSentinel {
			c.Violate("valid-vector-rejected:"+errTypeName(o.Err), "valid vector rejected: %v", o.Err)
			return
		}
	}
	if sig, msg := CompareSuccess(sc, o, o.Err == nil); sig != "" {
		c.Violate(sig, "%s", msg)
		return
	}
	nfields, bound, typed := 0, 0, 0
	rest := false
	for _, cm := range sc.Exp.Chain {
		if cm.Pos == nil {
			continue
		}
		for _, a := range cm.Pos.Args {
			nfields++
			bound += len(sc.Exp.PosVals[a])
			if a.T.K != KString {
				typed++
			}
			if a.IsRest() {
				rest = true
			}
		}
	}
	if bound == 0 && len(sc.Exp.Rest) == 0 {
		return // nothing bound: trivial
	}
	c.Count("positional_tokens_bound", int64(bound))
	inter, afterTerm := 0, 0
	seenPos, seenTerm := false, false
	for _, it := range sc.Items {
		switch it.Kind {
		case IPos:
			seenPos = true
		case ITerm:
			seenTerm = true
		case IRaw:
			if seenTerm && optionShaped(it.Tok) {
				afterTerm++
			}
		case IOcc, IFlag, ICluster:
			if seenPos {
				inter++
			}
		}
	}
	if inter > 3 {
		inter = 3
	}
	// a second parse on the same parser binds again from the first declared positional (one case in three)
	reused := false
	if c.K%3 == 0 && bound > 0 {
		sc2 := GenScenario(c.Sub("reuse"), d, &ScenCfg{MaxItems: 8, POcc: 0, PCluster: 0, PPos: 80, PCmd: 20, PTerm: 0, PQuoted: 0})
		if sc2.Exp.Unspec == "" && !sc2.NeedsCommand() {
			args2 := sc2.Args()
			before := map[*PosArg]string{}
			for _, cm := range d.Cmds {
				if cm.Pos != nil {
					for _, a := range cm.Pos.Args {
						if a.Val.IsValid() {
							before[a] = Canon(a.Val)
						}
					}
				}
			}
			var err2 error
			if pi := safely(func() { _, err2 = b.P.ParseArgs(append([]string{}, args2...)) }); pi != nil {
				c.Violate("reuse:panic", "second ParseArgs(%q) on the same parser panicked: %s", args2, pi.Value)
				return
			}
			c.Count("parses", 1)
			if _, isSentinel := err2.(*sentinelErr); err2 != nil && !isSentinel {
				c.Violate("reuse:valid-vector-rejected:"+errTypeName(err2), "second parse of the valid vector %q on the same parser failed: %v", args2, err2)
				return
			}
			for _, cm := range sc2.Exp.Chain {
				if cm.Pos == nil {
					continue
				}
				for _, a := range cm.Pos.Args {
					toks := sc2.Exp.PosVals[a]
					if len(toks) == 0 || !a.Val.IsValid() {
						continue
					}
					want, ok := expectedPos(a, toks)
					if !ok {
						continue
					}
					got := Canon(a.Val)
					if a.T.W == WMap {
						// (likewise for a map: the new entry must be there)
						ev := newZero(a.T)
						for _, t := range toks {
							applyRef(ev, a.T, a.Base, t)
						}
						it := ev.MapRange()
						for it.Next() {
							if gv := a.Val.MapIndex(it.Key()); !gv.IsValid() || Canon(gv) != Canon(it.Value()) {
								c.Violate("reuse:positional:map", "second parse %q: map positional %s of %s holds %s, expected the entry %s => %s", args2, a.DisplayName(), cm.Name, got, Canon(it.Key()), Canon(it.Value()))
								return
							}
						}
						continue
					}
					if a.IsRest() || a.PtrSlice {
						// whether a list keeps what an earlier parse put there is not stated: the new tokens must be its tail
						ws := strings.TrimPrefix(strings.TrimPrefix(want, "&"), "[")
						if !(got == want || strings.HasSuffix(got, " "+ws)) {
							c.Violate("reuse:positional:rest", "second parse %q: list positional %s of %s holds %s, expected the tokens %q at its end (it held %s before)", args2, a.DisplayName(), cm.Name, got, toks, before[a])
							return
						}
						continue
					}
					if got != want {
						c.Violate("reuse:positional:"+a.T.String(), "second parse %q on the same parser: positional %s of %s holds %s, expected %s", args2, a.DisplayName(), cm.Name, got, want)
						return
					}
				}
			}
			reused = true
		}
	}
	cell := fmt.Sprintf("fields=%d rest=%v inter=%d term=%v", minInt(nfields, 5), rest, inter, seenTerm)
	if reused {
		cell += " +second-parse"
	}
	c.Held(cell, fmt.Sprintf("bound=%d typed=%d restargs=%d optlike-after-term=%d depth=%d", bound, typed, len(sc.Exp.Rest), afterTerm, sc.Final.Depth))
}

func minInt(a, b int) int {
	if a < b {
		return a
	}
	return b
}

func init() {
	register(&Property{
		ID:    "C10",
		Title: "Positional arguments bind in declaration order",
		Cases: func(tier string) int64 {
			switch tier {
			case "thorough":
				return 1500000 + 125000 // + history cases
			case "race":
				return 0
			}
			return 40000 + 3333 // + history cases
		},
		Run:           c10Run,
		MinNontrivial: 300,
		Rule: "case k: a declaration in which every command has 1-5 positional fields (string/int/float/Duration/uint8/Unmarshaler types, trailing slice in half), on the parser and on commands to depth 2; an intent vector of up to 14 items interleaving plain tokens with option occurrences at density {0,25,45}% and the terminator with probability {0,15,40,80}% followed by raw (also option-shaped) tokens. " +
			"Oracle: positional field i holds the reference conversion of the i-th non-option token of its command, the slice/remaining arguments hold the rest in order. Non-trivial = at least one token bound; distinct = (#fields, rest?, #interleaved options, terminator?, bound count, typed count, depth).",
		Assumptions: []string{"typed positionals receive only convertible tokens (conversion errors of positionals are outside the statement)"},
		Technique:   "runtime reference-model monitor: positional fields and remaining arguments compared with the declaration-order denotation of an intent vector; metamorphic history monitor ([use, change of the public model, use] on one parser vs. a fresh parser of the changed declaration); ownership monitor on the argument vector handed to ParseArgs",
		LevelText:   "Exploration over layouts x interleavings with an exact denotation oracle; appropriate for an input-quantified binding rule of a deterministic function.",
		LevelNote:   "Trusted: the intent walker's positional accounting and the reference conversions.",
		DesignRef:   "§4 C10",
	})
}
