package main

import (
	"fmt"
	"os"
	"reflect"
	"sort"
	"strings"

	flags "github.com/jessevdk/go-flags"
)

// ---------------------------------------------------------------------------
// Histories: one parser used for several steps, with the program changing the public model in between.
//
// The oracle is metamorphic and needs no expected values: after [use 1, mutation], the observable part of
// [use 2] on the re-used parser must equal [use 2] on a parser freshly built from the mutated declaration.
// Only observables that do not depend on what an earlier parse left behind take part (the library never
// resets option values, Active or list positionals, and never un-sets "was given" - see DESIGN §0):
// the error (type and text), the returned remaining arguments, the callback/Execute log of the step, the
// values of options that occur in the step's own vector and the scalar positionals it binds.
// ---------------------------------------------------------------------------

// resolveLive binds every model group to its *flags.Group and every option to its *flags.Option by walking
// the live parser in parallel with the model (struct-field order is declaration order). It returns "" or
// the reason why the walk could not be completed (then no history stage is run).
func (d *Decl) resolveLive(b *Built) string {
	if b.P == nil || b.Err != nil {
		return "parser not built"
	}
	top := b.P.Command.Group.Groups()
	if len(top) == 0 {
		return "no application group"
	}
	if why := d.bindGroup(d.Root.G, top[0]); why != "" {
		return why
	}
	for _, cm := range d.Cmds[1:] {
		if cm.FC == nil {
			return "command handle missing: " + cm.Name
		}
		fg := cm.FC.Group
		if cm.Exec {
			fg = cm.G.FG
		}
		if fg == nil {
			return "group handle missing: " + cm.Name
		}
		if why := d.bindGroup(cm.G, fg); why != "" {
			return why
		}
	}
	return ""
}

func (d *Decl) bindGroup(g *Grp, fg *flags.Group) string {
	// the options of inline structs are scanned into the same flags.Group, at the position of the struct field;
	// tagged groups nested inside an inline struct become sub-groups of that flags.Group
	var effOpts []*Opt
	var effSubs []*Grp
	var collect func(x *Grp)
	collect = func(x *Grp) {
		x.FG = fg
		effOpts = append(effOpts, x.Opts...)
		for _, sg := range x.Subs {
			switch {
			case sg.Late:
			case sg.Inline:
				collect(sg)
			default:
				effSubs = append(effSubs, sg)
			}
		}
	}
	collect(g)
	opts := fg.Options()
	if len(opts) != len(effOpts) {
		return fmt.Sprintf("group %s: %d live options, %d declared", g.Field, len(opts), len(effOpts))
	}
	for i, o := range effOpts {
		if opts[i].LongName != o.Long || opts[i].ShortName != o.Short {
			return "option order mismatch in group " + g.Field
		}
		o.FO = opts[i]
	}
	live := fg.Groups()
	for li, sg := range effSubs {
		if li >= len(live) {
			return "nested group missing: " + sg.Field
		}
		if why := d.bindGroup(sg, live[li]); why != "" {
			return why
		}
	}
	return ""
}

// attachLate adds one late group (model already linked into the tree) to the live parser.
func (d *Decl) attachLate(b *Built, lg *Grp) error {
	st := d.structType(lg, nil)
	gv := reflect.New(st)
	d.instantiate(lg, nil, gv.Elem(), b.Log, false)
	var fg *flags.Group
	var err error
	switch {
	case lg.LateVia == "command" && lg.Cmd.Parent == nil:
		fg, err = b.P.AddGroup(lg.Desc, "", gv.Interface())
	case lg.LateVia == "command":
		fg, err = lg.Cmd.FC.AddGroup(lg.Desc, "", gv.Interface())
	default:
		if lg.Parent == nil || lg.Parent.FG == nil {
			return fmt.Errorf("host group of %s has no live handle", lg.Field)
		}
		fg, err = lg.Parent.FG.AddGroup(lg.Desc, "", gv.Interface())
	}
	if err != nil {
		return err
	}
	fg.Namespace = lg.Namespace
	fg.EnvNamespace = lg.EnvNS
	fg.Hidden = lg.Hidden
	d.instantiate(lg, nil, gv.Elem(), b.Log, true)
	if why := d.bindGroup(lg, fg); why != "" {
		return fmt.Errorf("%s", why)
	}
	return nil
}

// newLateGroup links a new group of 1-3 fresh options under host (a group of command cm) into the model.
func (d *Decl) newLateGroup(r *Rand, host *Grp, cm *Cmd, via string, required bool) *Grp {
	id := d.NewID()
	lg := &Grp{Field: fmt.Sprintf("L%d", id), Desc: fmt.Sprintf("Late %03d", id), Parent: host, Cmd: cm, ByAddGroup: true, Late: true, LateVia: via}
	if r.Chance(1, 3) {
		lg.Namespace = fmt.Sprintf("ln%d", id)
	}
	types := []TypeSpec{{K: KString}, {K: KInt}, {K: KBool}, {K: KString, W: WSlice}}
	n := r.Range(1, 3)
	for i := 0; i < n; i++ {
		oid := d.NewID()
		o := &Opt{ID: oid, Field: fmt.Sprintf("F%d", oid), Long: fmt.Sprintf("zl%03d", oid), T: types[r.Intn(len(types))], Grp: lg, Cmd: cm}
		if i == 0 {
			o.T = TypeSpec{K: KString}
			o.Required = required
		}
		lg.Opts = append(lg.Opts, o)
		d.Opts = append(d.Opts, o)
	}
	host.Subs = append(host.Subs, lg)
	d.Grps = append(d.Grps, lg)
	return lg
}

type histMutation struct {
	Kind  string
	Label string
	Focus *Opt     // option the second use should mention
	Cmd   *Cmd     // command the uses should reach
	Extra string   // an extra token for the second vector (e.g. the old spelling, a removed choice)
	Args1 []string // the command words of the first use, rendered before the model moved to state B (renamed commands)
	live  func(b *Built) error
}

// planMutation picks a mutation of the given kind that applies to declaration d (model state A) and returns it
// with the model ALREADY in state B; live applies it to the parser that was built from state A.
func planMutation(r *Rand, d *Decl, kind string) *histMutation {
	pickCmd := func() *Cmd { return d.Cmds[r.Intn(len(d.Cmds))] }
	switch kind {
	case "late-group-on-command", "late-group-on-ancestor", "late-required-group":
		cm := pickCmd()
		host := cm
		if kind == "late-group-on-ancestor" && cm.Parent != nil {
			ch := cm.Chain()
			host = ch[r.Intn(len(ch)-1)]
		}
		lg := d.newLateGroup(r, host.G, host, "command", kind == "late-required-group")
		return &histMutation{Kind: kind, Label: kind, Focus: lg.Opts[0], Cmd: cm, live: func(b *Built) error { return d.attachLate(b, lg) }}
	case "late-group-in-group", "late-required-in-group":
		// Group.AddGroup on the default group of the parser, on a command's group or on a nested group
		cm := pickCmd()
		var hosts []*Grp
		var rec func(g *Grp)
		rec = func(g *Grp) {
			hosts = append(hosts, g)
			for _, s := range g.Subs {
				rec(s)
			}
		}
		anc := cm.Chain()[r.Intn(len(cm.Chain()))]
		rec(anc.G)
		host := hosts[r.Intn(len(hosts))]
		lg := d.newLateGroup(r, host, anc, "group", kind == "late-required-in-group")
		return &histMutation{Kind: kind, Label: kind, Focus: lg.Opts[0], Cmd: cm, live: func(b *Built) error { return d.attachLate(b, lg) }}
	case "alias-added", "command-renamed":
		// Command.Name and Command.Aliases are public fields: a program that learns its aliases from a configuration
		// file found by a first lenient parse assigns them between two parses
		var cands []*Cmd
		for _, cm := range d.Cmds {
			if cm.Parent != nil {
				cands = append(cands, cm)
			}
		}
		if len(cands) == 0 {
			return nil
		}
		cm := cands[r.Intn(len(cands))]
		var a1 []string
		for _, x := range cm.Chain()[1:] {
			a1 = append(a1, x.Name)
		}
		m := &histMutation{Kind: kind, Label: kind, Cmd: cm, Args1: a1}
		if kind == "alias-added" {
			al := fmt.Sprintf("al%d", d.NewID())
			cm.Aliases = append(append([]string{}, cm.Aliases...), al, al+"x")
			na := cm.Aliases
			m.live = func(b *Built) error {
				if cm.FC == nil {
					return fmt.Errorf("no live handle")
				}
				cm.FC.Aliases = append([]string{}, na...)
				return nil
			}
		} else {
			m.Extra = cm.Name // (the old name is now an unknown word or a plain argument, on both parsers alike)
			cm.Name = fmt.Sprintf("rc%d", d.NewID())
			nn := cm.Name
			m.live = func(b *Built) error {
				if cm.FC == nil {
					return fmt.Errorf("no live handle")
				}
				cm.FC.Name = nn
				return nil
			}
		}
		return m
	case "required-set":
		// Option.Required is a public field: an option that the declaration leaves optional is made mandatory by
		// the program (e.g. depending on a mode found in a first parse)
		var cands []*Opt
		for _, o := range d.Opts {
			if !o.Required && !o.T.IsFunc() && !o.Prog && o.FO != nil && len(o.Defaults) == 0 && o.Env == "" && !o.Optional && (o.Long != "" || o.Short != 0) {
				cands = append(cands, o)
			}
		}
		if len(cands) == 0 {
			return nil
		}
		f := cands[r.Intn(len(cands))]
		f.Required = true
		return &histMutation{Kind: kind, Label: kind, Cmd: f.Cmd, live: func(b *Built) error {
			if f.FO == nil {
				return fmt.Errorf("no live handle")
			}
			f.FO.Required = true
			return nil
		}}
	case "rename-namespace":
		var cands []*Grp
		for _, g := range d.Grps {
			if g.Inline {
				continue // (an untagged struct has no namespace of its own)
			}
			for _, o := range allOptsOf(g) {
				if o.Long != "" && !o.T.IsFunc() && !o.Required {
					cands = append(cands, g)
					break
				}
			}
		}
		if len(cands) == 0 {
			return nil
		}
		g := cands[r.Intn(len(cands))]
		var withLong []*Opt
		for _, o := range allOptsOf(g) {
			if o.Long != "" && !o.T.IsFunc() && !o.Required {
				// (a required option given in the first parse stays "given": the library never un-sets that)
				withLong = append(withLong, o)
			}
		}
		f := withLong[r.Intn(len(withLong))]
		old := d.FullLong(f)
		g.Namespace = fmt.Sprintf("rn%d", d.NewID())
		ns := g.Namespace
		m := &histMutation{Kind: kind, Label: kind, Focus: f, Cmd: f.Cmd, live: func(b *Built) error {
			if g.FG == nil {
				return fmt.Errorf("no live handle")
			}
			g.FG.Namespace = ns
			return nil
		}}
		if !f.T.IsFlag() {
			m.Extra = "--" + old + "=" + GenScalarTextSimple(r, f)
		} else {
			m.Extra = "--" + old
		}
		return m
	case "rename-option":
		var cands []*Opt
		for _, o := range d.Opts {
			if o.Long != "" && !o.T.IsFunc() && !o.Prog && o.ProgChoicesFrom == 0 && !o.Required {
				cands = append(cands, o)
			}
		}
		if len(cands) == 0 {
			return nil
		}
		f := cands[r.Intn(len(cands))]
		old := d.FullLong(f)
		f.Long = fmt.Sprintf("zr%03d", d.NewID())
		nl := f.Long
		m := &histMutation{Kind: kind, Label: kind, Focus: f, Cmd: f.Cmd, live: func(b *Built) error {
			if f.FO == nil {
				return fmt.Errorf("no live handle")
			}
			f.FO.LongName = nl
			return nil
		}}
		m.Extra = "--" + old
		if !f.T.IsFlag() {
			m.Extra += "=" + GenScalarTextSimple(r, f)
		}
		return m
	case "delimiter":
		var cands []*Opt
		for _, o := range d.Opts {
			if o.Long != "" && len(o.NsChain()) > 0 && !o.T.IsFunc() && !o.Required {
				cands = append(cands, o)
			}
		}
		if len(cands) == 0 {
			return nil
		}
		f := cands[r.Intn(len(cands))]
		old := d.FullLong(f)
		nd := "+"
		if d.nsDelim() == "+" {
			nd = "."
		}
		d.NsDelim = nd
		m := &histMutation{Kind: kind, Label: kind, Focus: f, Cmd: f.Cmd, live: func(b *Built) error { b.P.NamespaceDelimiter = nd; return nil }}
		m.Extra = "--" + old
		if !f.T.IsFlag() {
			m.Extra += "=" + GenScalarTextSimple(r, f)
		}
		return m
	case "choices-in-place", "choices-replaced":
		var cands []*Opt
		for _, o := range d.Opts {
			if len(o.Choices) > 0 && !o.T.IsFunc() && !o.Prog && o.ProgChoicesFrom == 0 && len(o.Defaults) == 0 && len(o.Initial) == 0 && !o.Optional && !o.Required {
				cands = append(cands, o)
			}
		}
		if len(cands) == 0 {
			return nil
		}
		f := cands[r.Intn(len(cands))]
		i := r.Intn(len(f.Choices))
		removed := f.Choices[i]
		nv := GenScalarText(r, f.T.K, f.Base, 0)
		for _, ch := range f.Choices {
			if ch == nv {
				return nil
			}
		}
		nc := append([]string{}, f.Choices...)
		nc[i] = nv
		f.Choices = nc
		inPlace := kind == "choices-in-place"
		m := &histMutation{Kind: kind, Label: kind, Focus: f, Cmd: f.Cmd, live: func(b *Built) error {
			if f.FO == nil || len(f.FO.Choices) != len(nc) {
				return fmt.Errorf("no live handle")
			}
			if inPlace {
				f.FO.Choices[i] = nv
			} else {
				f.FO.Choices = append([]string{}, nc...)
			}
			return nil
		}}
		if f.Long != "" {
			m.Extra = "--" + d.FullLong(f) + "=" + removed
		}
		return m
	}
	return nil
}

// histObs renders the state-independent observables of one parse.
func histObs(b *Built, sc *Scenario, args []string) string {
	b.Log.E = nil
	o := RunParse(b, args)
	var sb strings.Builder
	if o.Panic != nil {
		fmt.Fprintf(&sb, "PANIC %s\n", o.Panic.Value)
	}
	fmt.Fprintf(&sb, "error: %s", errTypeName(o.Err))
	if o.Err != nil {
		fmt.Fprintf(&sb, " %q", o.Err.Error())
	}
	fmt.Fprintf(&sb, "\nrest: %q\nlog:", o.Rest)
	for _, e := range o.Log {
		fmt.Fprintf(&sb, " %s#%d%q", e.Kind, e.ID, e.Args)
	}
	sb.WriteString("\n")
	var seen []*Opt
	for op, n := range sc.Exp.Seen {
		if n > 0 && !op.T.IsFunc() && op.Val.IsValid() && !sc.Exp.ValueUnspec[op] {
			seen = append(seen, op)
		}
	}
	sort.Slice(seen, func(i, j int) bool { return seen[i].ID < seen[j].ID })
	if o.Err == nil {
		for _, op := range seen {
			fmt.Fprintf(&sb, "option %s = %s\n", op.Field, Canon(op.Val))
		}
		for _, cm := range sc.Exp.Chain {
			if cm.Pos == nil {
				continue
			}
			for _, a := range cm.Pos.Args {
				if !a.IsRest() && !a.PtrSlice && a.T.W != WMap && len(sc.Exp.PosVals[a]) > 0 && a.Val.IsValid() {
					fmt.Fprintf(&sb, "positional %s = %s\n", a.DisplayName(), Canon(a.Val))
				}
			}
		}
	}
	return sb.String()
}

// histParseStage runs [parse, mutation, parse] on one parser and compares the second parse with the same parse
// on a parser freshly built from the mutated declaration. It returns the label of the history it ran ("" if
// none applied); a difference is recorded as a violation on c.
func histParseStage(c *Ctx, d *Decl, kinds []string, firstUse string) string {
	r := c.Sub("history")
	kind := kinds[r.Intn(len(kinds))]
	b := d.Build()
	if b.Err != nil || d.resolveLive(b) != "" {
		return ""
	}
	if kind == "shorter-chain" {
		return histShorterChain(c, d, b, r)
	}
	// the mutation is planned first (the first use should touch what it will change); the model moves to state B,
	// so everything that must be rendered in state A is rendered before
	var m *histMutation
	var args1 []string
	var probeFinal *Cmd
	{
		// first use, generated on the unmutated model
		probe := d.Cmds[r.Intn(len(d.Cmds))]
		sc1 := GenScenario(r, d, &ScenCfg{MaxItems: 6, POcc: 45, PCluster: 8, PPos: 15, PCmd: 30, PTerm: 0, PQuoted: 0, SkipReq: true, Target: probe})
		args1 = sc1.Args()
		probeFinal = sc1.Final
	}
	if kind != "none" {
		// plan on a copy of the generator stream so that use 1 can be re-generated with the focus once it is known
		m = planMutation(r, d, kind)
		if m == nil {
			return ""
		}
	} else {
		m = &histMutation{Kind: "none", Label: "none", Cmd: probeFinal, live: func(*Built) error { return nil }}
	}
	if kind == "choices-in-place" || kind == "choices-replaced" {
		// the first parse must have used the option (with a value that is a choice before and after)
		f := m.Focus
		var keep string
		for _, ch := range f.FO.Choices {
			for _, nc := range f.Choices {
				if ch == nc {
					keep = ch
				}
			}
		}
		args1 = nil
		for _, cm := range f.Cmd.Chain()[1:] {
			args1 = append(args1, cm.Name)
		}
		if keep != "" && f.Long != "" {
			args1 = append(args1, "--"+d.FullLong(f)+"="+keep)
		}
	} else if m.Cmd != nil && m.Kind != "none" {
		// reach the command in whose context the change will be used
		args1 = nil
		for _, cm := range m.Cmd.Chain()[1:] {
			args1 = append(args1, cm.Name)
		}
		if m.Args1 != nil {
			args1 = append([]string{}, m.Args1...)
		}
		if m.Kind == "rename-namespace" || m.Kind == "rename-option" || m.Kind == "delimiter" {
			// (rendered with the old name: the model is already in state B, the token comes from the plan)
			if m.Extra != "" {
				args1 = append(args1, m.Extra)
			}
		}
	}
	var pi *PanicInfo
	switch firstUse {
	case "help":
		fc := b.P.Command
		for _, cm := range m.Cmd.Chain()[1:] {
			if cm.FC != nil {
				fc.Active = cm.FC
				fc = cm.FC
			}
		}
		pi = safely(func() {
			var sink strings.Builder
			b.P.WriteHelp(&sink)
			b.P.WriteManPage(&sink)
		})
	case "complete":
		// an interactive program serves a completion request with the parser it then parses the entered line with
		pi = safely(func() {
			prev := b.P.CompletionHandler
			b.P.CompletionHandler = func([]flags.Completion) {}
			os.Setenv("GO_FLAGS_COMPLETION", "1")
			b.P.ParseArgs(append(append([]string{}, args1...), "--"))
			os.Unsetenv("GO_FLAGS_COMPLETION")
			b.P.CompletionHandler = prev
		})
	default:
		pi = safely(func() { b.P.ParseArgs(append([]string{}, args1...)) })
	}
	if pi != nil {
		c.Violate("history:"+m.Label+":panic-in-first-use", "first use %q panicked: %s", args1, pi.Value)
		return m.Label
	}
	if err := m.live(b); err != nil {
		return ""
	}
	// second use, generated on the mutated model
	tgt := m.Cmd
	if firstUse == "complete" && m.Kind == "none" {
		// a completion request leaves nothing behind (no command was selected, nothing was set): the entered line
		// may just as well stop above the command the completed line had reached
		ch := m.Cmd.Chain()
		tgt = ch[r.Intn(len(ch))]
	}
	var sc2 *Scenario
	for try := 0; try < 4; try++ {
		sc2 = GenScenario(r, d, &ScenCfg{MaxItems: 6, POcc: 40, PCluster: 8, PPos: 20, PCmd: 25, PTerm: 5, PQuoted: 0, SkipReq: true, Target: tgt, Focus: m.Focus, FocusN: 1 + r.Intn(2)})
		if sc2.Final == tgt {
			break
		}
	}
	for _, cm := range tgt.Chain() {
		if cm.Pos != nil {
			for _, a := range cm.Pos.Args {
				if cm.Pos.Required || a.Req != "" {
					// counts of list positionals include what an earlier parse stored (never reset): whether a
					// positional requirement is met on a re-used parser is not a state-free observation
					return ""
				}
			}
		}
	}
	if sc2.Final != tgt {
		// the library never resets Active: a second vector that ends in another command than the first one is
		// checked against required options of the stale chain - not a state-free observation
		return ""
	}
	args2 := sc2.Args()
	if m.Extra != "" && r.Bool() {
		// the spelling that is no longer valid (old name, removed choice), at the end of the vector
		args2 = append(args2, m.Extra)
	}
	c.Note("history", map[string]interface{}{"first_use": firstUse, "first_vector": fmt.Sprintf("%q", args1), "mutation": m.Label, "second_vector": fmt.Sprintf("%q", args2)})
	obsA := histObs(b, sc2, args2)
	fresh := d.Build()
	if fresh.Err != nil {
		return ""
	}
	obsB := histObs(fresh, sc2, args2)
	// the command the library really ends in (it may differ from the intent, e.g. when PassAfterNonOption stops
	// the parse early): below it the re-used parser still carries the Active chain of the first use, and the
	// required check follows that chain - only vectors that really end where the first use ended are judged
	var active []string
	for x := fresh.P.Command.Active; x != nil && len(active) < 64; x = x.Active {
		active = append(active, x.Name)
	}
	if !eqStrs(active, chainNames(tgt.Chain())) {
		return ""
	}
	if firstUse == "parse" && len(args1) > len(m.Cmd.Chain())-1 && (strings.Contains(obsA, "error: flags.Error/required") || strings.Contains(obsB, "error: flags.Error/required")) {
		// the first vector contained an option token: through a name that an outer command also declares it may
		// have marked a required option as given (Set marks before it converts) - that mark is never taken back
		return ""
	}
	c.Count("history_stages", 1)
	if obsA != obsB {
		c.Violate("history:"+m.Label+":"+firstUse, "after [%s %q, %s] the parse of %q on the same parser differs from the same parse on a fresh parser of the changed declaration:\n--- re-used parser\n%s--- fresh parser\n%s", firstUse, args1, m.Label, args2, obsA, obsB)
	}
	return m.Label
}

// histCase dedicates a whole case to one history on declaration d.
func histCase(c *Ctx, d *Decl, kinds []string, firstUses []string) {
	c.Case(func() interface{} { return map[string]interface{}{"declaration_after_the_change": d.Describe()} })
	fu := firstUses[c.Sub("history-use").Intn(len(firstUses))]
	hl := histParseStage(c, d, kinds, fu)
	if c.Violated() || hl == "" {
		return
	}
	c.Held("history/"+hl+"/first-use="+fu, fmt.Sprintf("opts=%d cmds=%d", minInt(len(d.Opts), 40), minInt(len(d.Cmds), 12)))
}

var histAllParseKinds = []string{"alias-added", "command-renamed", "required-set", "late-group-on-command", "late-group-on-ancestor", "late-group-in-group", "rename-namespace", "rename-option", "delimiter", "choices-in-place", "choices-replaced", "late-required-group", "late-required-in-group", "none"}

// histChoiceCfg: small declarations in which most argument-taking options carry choices.
func histChoiceCfg() *DeclCfg {
	return &DeclCfg{
		MaxDepth: 2, MaxFan: 2, PCmds: 50, Types: []TypeSpec{{K: KString}, {K: KInt}, {K: KString, W: WSlice}, {K: KUint8}, {K: KDuration}, {K: KString, W: WPtr}, {K: KBool}},
		OptsMin: 1, OptsMax: 3, SubGroupsMax: 1, NestMax: 1, PNamespace: 30, PLongOnly: 30, PChoices: 80, PLongChoices: 30, PByTag: 50, PExec: 30, PSubOptional: 60,
		ParserOpts: []flags.Options{0, flags.PassDoubleDash, flags.IgnoreUnknown},
	}
}

// histShorterChain: a parse that selects a deep command, then a parse on the same parser that stops at one of
// its ancestors. Only declarations without required options or positional requirements qualify (with them the
// stale Active chain of the first parse changes which requirement is reported first - not state-free).
func histShorterChain(c *Ctx, d *Decl, b *Built, r *Rand) string {
	for _, o := range d.Opts {
		if o.Required {
			return ""
		}
	}
	for _, cm := range d.Cmds {
		if cm.Pos != nil {
			return "" // (plain words would be needed to get past an ancestor's positionals)
		}
	}
	var deep []*Cmd
	for _, cm := range d.Cmds {
		if cm.Depth >= 1 {
			deep = append(deep, cm)
		}
	}
	if len(deep) == 0 {
		return ""
	}
	x := deep[r.Intn(len(deep))]
	ch := x.Chain()
	anc := ch[r.Intn(len(ch)-1)] // a proper ancestor (possibly the root)
	var args1, args2 []string
	for _, cm := range ch[1:] {
		args1 = append(args1, cm.Name)
	}
	for _, cm := range anc.Chain()[1:] {
		w := cm.Name
		if len(cm.Aliases) > 0 && r.Bool() {
			w = cm.Aliases[r.Intn(len(cm.Aliases))]
		}
		args2 = append(args2, w)
	}
	switch r.Intn(3) {
	case 1:
		// a word that is no sub-command of the ancestor
		args2 = append(args2, "zz-no-such-command")
	case 2:
		// a flag of the ancestor's scope, if any
		for _, o := range d.ScopeOf(anc).Addressable(d) {
			if o.T.IsFlag() && o.Long != "" && d.ScopeOf(anc).Long[d.FullLong(o)] == o {
				args2 = append(args2, "--"+d.FullLong(o))
				break
			}
		}
	}
	if pi := safely(func() { b.P.ParseArgs(append([]string{}, args1...)) }); pi != nil {
		c.Violate("history:shorter-chain:panic-in-first-use", "first use %q panicked: %s", args1, pi.Value)
		return "shorter-chain"
	}
	sc := &Scenario{D: d, Exp: newExpect(d), Final: anc}
	sc.Exp.Chain = anc.Chain()
	c.Note("history", map[string]interface{}{"first_vector": fmt.Sprintf("%q", args1), "second_vector": fmt.Sprintf("%q", args2)})
	obsA := histObs(b, sc, args2)
	fresh := d.Build()
	if fresh.Err != nil {
		return ""
	}
	obsB := histObs(fresh, sc, args2)
	c.Count("history_stages", 1)
	if obsA != obsB {
		c.Violate("history:shorter-chain", "after the parse of %q, the parse of %q on the same parser differs from the same parse on a fresh parser:\n--- re-used parser\n%s--- fresh parser\n%s", args1, args2, obsA, obsB)
	}
	return "shorter-chain"
}

// histEnvStage: [parse, change an env-namespace or the env-namespace delimiter, export the variable under its NEW
// name, parse] - the option must pick the variable up exactly as on a fresh parser of the changed declaration.
func histEnvStage(c *Ctx, d *Decl) string {
	r := c.Sub("history-env")
	b := d.Build()
	if b.Err != nil || d.resolveLive(b) != "" {
		return ""
	}
	var cands []*Opt
	for _, o := range d.Opts {
		if o.Env != "" && !o.T.IsFunc() && len(o.EnvNsChain()) > 0 {
			cands = append(cands, o)
		}
	}
	if len(cands) == 0 {
		return ""
	}
	f := cands[r.Intn(len(cands))]
	var args []string
	for _, cm := range f.Cmd.Chain()[1:] {
		args = append(args, cm.Name)
	}
	firstUse := []string{"parse", "help"}[r.Intn(2)]
	oldKey := d.FullEnv(f)
	os.Unsetenv(oldKey)
	var pi *PanicInfo
	if firstUse == "parse" {
		pi = safely(func() { b.P.ParseArgs(append([]string{}, args...)) })
	} else {
		fc := b.P.Command
		for _, cm := range f.Cmd.Chain()[1:] {
			if cm.FC != nil {
				fc.Active = cm.FC
				fc = cm.FC
			}
		}
		pi = safely(func() {
			var sink strings.Builder
			b.P.WriteHelp(&sink)
			b.P.WriteManPage(&sink)
		})
	}
	if pi != nil {
		c.Violate("history:env:panic-in-first-use", "first use panicked: %s", pi.Value)
		return "env"
	}
	label := "env-namespace"
	if r.Chance(1, 3) {
		label = "env-delimiter"
		nd := "__"
		if d.envDelim() == "__" {
			nd = "_"
		}
		d.EnvDelim = nd
		b.P.EnvNamespaceDelimiter = nd
	} else {
		var gs []*Grp
		for g := f.Grp; g != nil; g = g.Parent {
			if g.EnvNS != "" && g.FG != nil {
				gs = append(gs, g)
			}
		}
		if len(gs) == 0 {
			return ""
		}
		g := gs[r.Intn(len(gs))]
		g.EnvNS = fmt.Sprintf("RN%d", d.NewID())
		g.FG.EnvNamespace = g.EnvNS
	}
	newKey := d.FullEnv(f)
	val := GenValueText(r, f)
	if f.T.IsFlag() {
		val = "true"
	}
	if strings.ContainsRune(val, 0) || (f.EnvDelim != "" && strings.Contains(val, f.EnvDelim)) {
		return ""
	}
	os.Setenv(newKey, val)
	defer os.Unsetenv(newKey)
	obs := func(bb *Built) string {
		var err error
		p := safely(func() { _, err = bb.P.ParseArgs(append([]string{}, args...)) })
		s := fmt.Sprintf("error: %s", errTypeName(err))
		if err != nil {
			s += fmt.Sprintf(" %q", err.Error())
		}
		if p != nil {
			s += fmt.Sprintf(" PANIC %s", p.Value)
		}
		return s + fmt.Sprintf("\noption %s = %s\n", f.Field, Canon(f.Val))
	}
	c.Note("history", map[string]interface{}{"first_use": firstUse, "vector": fmt.Sprintf("%q", args), "mutation": label, "old_key": oldKey, "new_key": newKey, "value": val})
	obsA := obs(b)
	fresh := d.Build()
	if fresh.Err != nil {
		return ""
	}
	obsB := obs(fresh)
	c.Count("history_stages", 1)
	if obsA != obsB {
		c.Violate("history:"+label+":"+firstUse, "after [%s, %s] the variable %s=%q (formerly %s) is read differently by the same parser than by a fresh parser of the changed declaration:\n--- re-used parser\n%s--- fresh parser\n%s", firstUse, label, newKey, val, oldKey, obsA, obsB)
	}
	return label
}

// The history cases of a property are appended after its ordinary cases (so that k-decoded exhaustive products
// keep every cell): inHistTail tells whether case c.K lies in that tail.
func inHistTail(c *Ctx, quick, thorough int64) bool {
	if c.W.Tier == "race" {
		return false
	}
	if c.W.Tier == "thorough" {
		return c.K >= thorough
	}
	return c.K >= quick
}

// histIniReuse: one IniParser used for two reads with a change of the public model in between.
// Variants: (a) a section that does not exist at the first read is registered (AddGroup / AddCommand) before
// the second; (b) an option that the key matched by short name is outranked by a late option whose ini-name is
// that key; (c) the namespace of the key's group is renamed (the old spelling must stop resolving).
func histIniReuse(c *Ctx, d *Decl) string {
	r := c.Sub("history-ini")
	b := d.Build()
	if b.Err != nil || d.resolveLive(b) != "" {
		return ""
	}
	ip := flags.NewIniParser(b.P)
	ignore := d.Options&flags.IgnoreUnknown != 0
	asDefaults := r.Bool()
	ip.ParseAsDefaults = asDefaults
	read := func(text string) (err error, pi *PanicInfo) {
		pi = safely(func() { err = ip.Parse(strings.NewReader(text)) })
		return
	}
	variant := []string{"late-section", "late-section", "late-higher-ranked-option", "renamed-namespace", "renamed-section"}[r.Intn(5)]
	if variant != "late-section" {
		// (a second as-defaults read does not replace what the first one stored: whether an option counts as
		// "already set" is carried over between reads - not state-free; these variants read in normal mode)
		asDefaults = false
		ip.ParseAsDefaults = false
	}
	c.Note("history", map[string]interface{}{"variant": variant, "as_defaults": asDefaults, "ignore_unknown": ignore})
	switch variant {
	case "late-section":
		late := &struct {
			Late string `long:"zz-late"`
			N    int    `long:"zz-n"`
		}{}
		viaCmd := r.Bool()
		sec := "Zz Late"
		if viaCmd {
			sec = "zzlate"
		}
		t1 := "[" + sec + "]\nzz-late = v1\n"
		err1, pi := read(t1)
		if pi != nil {
			c.Violate("history:late-section:panic", "first read panicked: %s", pi.Value)
			return variant
		}
		fe, _ := err1.(*flags.Error)
		if !ignore && (fe == nil || fe.Type != flags.ErrUnknownGroup) {
			c.Violate("history:late-section:first-read", "section [%s] does not exist yet, the first read returned %v", sec, err1)
			return variant
		}
		if ignore && err1 != nil {
			c.Violate("history:late-section:first-read", "IgnoreUnknown: the first read returned %v", err1)
			return variant
		}
		var aerr error
		if viaCmd {
			_, aerr = b.P.AddCommand("zzlate", "late command", "", late)
		} else {
			_, aerr = b.P.AddGroup("Zz Late", "", late)
		}
		if aerr != nil {
			return ""
		}
		bad := r.Bool()
		t2 := "; second read\n[" + sec + "]\nzz-late = v2\n"
		if bad {
			t2 += "zz-n = not-a-number\n"
		}
		err2, pi := read(t2)
		if pi != nil {
			c.Violate("history:late-section:panic", "second read panicked: %s", pi.Value)
			return variant
		}
		if bad {
			ie, ok := err2.(*flags.IniError)
			if !ok || ie.LineNumber != 4 {
				c.Violate("history:late-section:bad-line-not-located", "after the section was registered, the unconvertible value on line 4 of the second read is reported as %v", err2)
			}
			return variant
		}
		if err2 != nil || late.Late != "v2" {
			c.Violate("history:late-section:not-applied", "section [%s] was registered after the first read; the second read on the same IniParser returned %v and stored %q (expected \"v2\")", sec, err2, late.Late)
		}
		return variant
	case "late-higher-ranked-option":
		// a group with a description whose own option has an ASCII short name and a transparent scalar type
		var cands []*Opt
		for _, o := range d.Opts {
			if o.Grp.Desc != "" && o.Grp.FG != nil && o.Cmd == d.Root && o.Short != 0 && o.Short < 128 && o.T.K == KString && o.T.W == WScalar && len(o.Choices) == 0 && !o.NoIni && o.Grp.Parent != nil {
				key := string(o.Short)
				if iniKeySingles(d, []*Grp{o.Grp}, key, o) {
					cands = append(cands, o)
				}
			}
		}
		if len(cands) == 0 {
			return ""
		}
		o := cands[r.Intn(len(cands))]
		key := string(o.Short)
		sec := o.Grp.Desc
		err1, pi := read("[" + sec + "]\n" + key + " = first\n")
		if pi != nil || err1 != nil {
			if pi != nil {
				c.Violate("history:late-higher-ranked-option:panic", "first read panicked: %s", pi.Value)
			}
			return ""
		}
		// the struct type must carry the key as ini-name: build it with reflect
		st := reflect.StructOf([]reflect.StructField{{Name: "X", Type: tString, Tag: reflect.StructTag(`long:"zz-x" ini-name:"` + key + `"`)}})
		pv := reflect.New(st)
		if _, err := o.Grp.FG.AddGroup("Late Ranked", "", pv.Interface()); err != nil {
			return ""
		}
		before := o.Val.String()
		err2, pi := read("[" + sec + "]\n" + key + " = second\n")
		if pi != nil {
			c.Violate("history:late-higher-ranked-option:panic", "second read panicked: %s", pi.Value)
			return variant
		}
		if got := pv.Elem().Field(0).String(); err2 != nil || got != "second" || o.Val.String() != before {
			c.Violate("history:late-higher-ranked-option:stale", "key %q in [%s] named option %s by its short name at the first read; then a nested group with an option whose ini-name is %q was added: the second read on the same IniParser returned %v, the new option holds %q (expected \"second\"), the old one went from %q to %q", key, sec, o.Field, key, err2, got, before, o.Val.String())
		}
		return variant
	case "renamed-section":
		// Group.ShortDescription is a public field (a program localises its titles, or renames the default group):
		// a section is found by the description the group has when the file is read
		var cands []*Opt
		for _, o := range d.Opts {
			if o.Grp.Desc != "" && o.Grp.FG != nil && !o.Grp.Inline && o.Cmd == d.Root && o.Long != "" && o.T.K == KString && o.T.W == WScalar && len(o.Choices) == 0 && !o.NoIni {
				if iniKeySingles(d, []*Grp{o.Grp}, d.FullLong(o), o) {
					cands = append(cands, o)
				}
			}
		}
		if len(cands) == 0 {
			return ""
		}
		o := cands[r.Intn(len(cands))]
		key := d.FullLong(o)
		if err1, pi := read("[" + o.Grp.Desc + "]\n" + key + " = first\n"); pi != nil || err1 != nil || o.Val.String() != "first" {
			return ""
		}
		oldSec := o.Grp.Desc
		o.Grp.Desc = fmt.Sprintf("Rn Section %d", d.NewID())
		o.Grp.FG.ShortDescription = o.Grp.Desc
		err2, pi := read("[" + strings.ToLower(o.Grp.Desc) + "]\n" + key + " = second\n")
		if pi != nil {
			c.Violate("history:renamed-section:panic", "second read panicked: %s", pi.Value)
			return variant
		}
		if err2 != nil || o.Val.String() != "second" {
			c.Violate("history:renamed-section:new-name", "after the group's description changed from %q to %q a section of the new name is read as %v / value %q (expected \"second\")", oldSec, o.Grp.Desc, err2, o.Val.String())
			return variant
		}
		for _, g := range d.Grps {
			if g != o.Grp && strings.EqualFold(g.Desc, oldSec) {
				return variant // (another group still answers to the old title)
			}
		}
		err3, pi := read("[" + oldSec + "]\n" + key + " = third\n")
		if pi != nil {
			c.Violate("history:renamed-section:panic", "third read panicked: %s", pi.Value)
			return variant
		}
		fe, _ := err3.(*flags.Error)
		if !ignore && (fe == nil || fe.Type != flags.ErrUnknownGroup) {
			c.Violate("history:renamed-section:old-name-accepted", "no group is titled %q any more, but reading that section returned %v and the option holds %q", oldSec, err3, o.Val.String())
		} else if ignore && o.Val.String() != "second" {
			c.Violate("history:renamed-section:old-name-accepted", "IgnoreUnknown: the stale section %q changed the option to %q", oldSec, o.Val.String())
		}
		return variant
	default:
		var cands []*Opt
		for _, o := range d.Opts {
			if o.Grp.Desc != "" && o.Grp.FG != nil && o.Grp.Namespace != "" && o.Cmd == d.Root && o.Long != "" && o.T.K == KString && o.T.W == WScalar && len(o.Choices) == 0 && !o.NoIni {
				if iniKeySingles(d, []*Grp{o.Grp}, d.FullLong(o), o) {
					cands = append(cands, o)
				}
			}
		}
		if len(cands) == 0 {
			return ""
		}
		o := cands[r.Intn(len(cands))]
		sec := o.Grp.Desc
		oldKey := d.FullLong(o)
		if err1, pi := read("[" + sec + "]\n" + oldKey + " = first\n"); pi != nil || err1 != nil {
			return ""
		}
		o.Grp.Namespace = fmt.Sprintf("rn%d", d.NewID())
		o.Grp.FG.Namespace = o.Grp.Namespace
		newKey := d.FullLong(o)
		err2, pi := read("[" + sec + "]\n" + newKey + " = second\n")
		if pi != nil {
			c.Violate("history:renamed-namespace:panic", "second read panicked: %s", pi.Value)
			return variant
		}
		if err2 != nil || o.Val.String() != "second" {
			c.Violate("history:renamed-namespace:new-name", "after the namespace change the key %q is read as %v / value %q (expected \"second\")", newKey, err2, o.Val.String())
			return variant
		}
		err3, pi := read("[" + sec + "]\n" + oldKey + " = third\n")
		if pi != nil {
			c.Violate("history:renamed-namespace:panic", "third read panicked: %s", pi.Value)
			return variant
		}
		if !ignore {
			if _, ok := err3.(*flags.IniError); !ok {
				c.Violate("history:renamed-namespace:old-name-accepted", "the key %q no longer names an option after the namespace change, but reading it returned %v and the option holds %q", oldKey, err3, o.Val.String())
			}
		} else if o.Val.String() != "second" {
			c.Violate("history:renamed-namespace:old-name-accepted", "IgnoreUnknown: the stale key %q changed the option to %q", oldKey, o.Val.String())
		}
		return variant
	}
}
