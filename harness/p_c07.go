package main

import (
	"fmt"
	"strings"
	"unicode/utf8"

	flags "github.com/jessevdk/go-flags"
)

// C07: unknown options are never silently accepted.

func c07Cfg(opts flags.Options) *DeclCfg {
	types := []TypeSpec{{K: KString}, {K: KBool}, {K: KBool}, {K: KInt}, {K: KString, W: WSlice}, {K: KBool, W: WSlice}, {K: KFloat64}, {K: KString, W: WMap, MapKey: KString}}
	return &DeclCfg{
		MaxDepth: 3, MaxFan: 3, PCmds: 70, Types: types, OptsMin: 1, OptsMax: 4, SubGroupsMax: 1, PInline: 20, PNameless: 15, NestMax: 2,
		PNamespace: 45, PShortOnly: 15, PLongOnly: 20, PClash: 10, NonASCII: true, PNoFlag: 35,
		PPos: 35, PosMax: 2, PRest: 40, PPosLongTag: 50, PNamedRest: 30, PExec: 40, PByTag: 50, PSubOptional: 45, PAliases: 20,
		ParserOpts: []flags.Options{opts}, NsDelims: []string{"", ".", "-", "::"}, PosTypes: []TypeSpec{{K: KString}},
	}
}

type unkCall struct {
	Name   string
	Arg    string
	HasArg bool
	Args   []string
}

// outOfScopeToken: an option that exists only in a sibling command or in a command not yet named.
func outOfScopeToken(r *Rand, d *Decl, cur *Cmd, sc *Scope) (string, string, bool) {
	var cands []*Opt
	for _, o := range d.Opts {
		inChain := false
		for _, cm := range cur.Chain() {
			if o.Cmd == cm {
				inChain = true
			}
		}
		if inChain {
			continue
		}
		cands = append(cands, o)
	}
	for try := 0; try < 10 && len(cands) > 0; try++ {
		o := cands[r.Intn(len(cands))]
		if o.Long != "" && sc.Long[d.FullLong(o)] == nil {
			n := d.FullLong(o)
			if o.T.IsFlag() {
				return "--" + n, n, true
			}
			return "--" + n + "=" + GenValueText(r, o), n, true
		}
		if o.Short != 0 && sc.Short[o.Short] == nil {
			n := string(o.Short)
			if o.T.IsFlag() {
				return "-" + n, n, true
			}
			return "-" + n + "=1", n, true
		}
	}
	return "", "", false
}

// unknownName extracts the option name of an option-shaped token (without prefix, inline argument split).
func unknownName(tok string) (name string, arg string, hasArg bool, long bool) {
	if strings.HasPrefix(tok, "--") {
		body := tok[2:]
		if i := strings.Index(body, "="); i >= 0 {
			return body[:i], body[i+1:], true, true
		}
		return body, "", false, true
	}
	body := tok[1:]
	_, n := utf8.DecodeRuneInString(body)
	if len(body) > n && body[n] == '=' {
		return body[:n], body[n+1:], true, false
	}
	return body, "", false, false
}

func c07Run(c *Ctx) {
	r := c.R
	policy := []string{"fail", "ignore", "handler"}[c.K%3]
	opts := []flags.Options{0, flags.PassDoubleDash, flags.HelpFlag | flags.PassDoubleDash, flags.HelpFlag, flags.PassAfterNonOption, flags.PassAfterNonOption | flags.PassDoubleDash}[(c.K/3)%6]
	if policy == "ignore" {
		opts |= flags.IgnoreUnknown
	}
	d := GenDecl(c.Sub("d"), c07Cfg(opts))
	// sentinel: a root flag the handler prepends to the queue so that "its return value is parsed next" is observable
	sentinel := &Opt{ID: d.NewID(), Field: "Fsentinel", Long: "zz-sentinel-flag", T: TypeSpec{K: KBool, W: WSlice}, Grp: d.Root.G, Cmd: d.Root}
	d.Root.G.Opts = append(d.Root.G.Opts, sentinel)
	d.Opts = append(d.Opts, sentinel)
	sentinelTok := "--" + d.FullLong(sentinel) // (the parser's own group may carry a namespace)
	var target *Cmd
	if len(d.Cmds) > 1 && r.Chance(3, 4) {
		target = d.Cmds[r.Intn(len(d.Cmds))]
	}
	sc := GenScenario(r, d, &ScenCfg{MaxItems: 8, POcc: 45, PCluster: 10, PPos: 18, PCmd: 20, PTerm: 7, PQuoted: 5, Target: target})
	if sc.Exp.Unspec != "" {
		c.Unspec(sc.Exp.Unspec)
		return
	}
	if sc.NeedsCommand() {
		c.Unspec("vector ends where a sub-command is still required")
		return
	}
	valid := sc.Items
	pi := passIndex(d, valid)
	pos := r.Intn(pi + 1)
	cur := cmdBefore(d, valid, pos)
	scope := d.ScopeOf(cur)
	// choose the unknown token
	kind := []string{"near-miss", "near-miss", "out-of-scope", "cluster", "no-flag-field", "after-sibling-word", "positional-field-tag", "empty-name"}[(c.K/12)%8]
	var tok, name string
	cluster := false
	var extraWord []string
	switch kind {
	case "after-sibling-word":
		// optional sub-commands: the name of a sibling of the current command is an ordinary word here, and an option
		// that only that sibling defines stays unknown after it
		if !(cur.Parent != nil && len(cur.Subs) > 0 && cur.SubOptional && cur.Pos == nil && pos == pi && policy == "fail" && opts&flags.PassAfterNonOption == 0) {
			kind = "near-miss"
			break
		}
		var sib *Cmd
		var so *Opt
		for _, s := range cur.Parent.Subs {
			if s == cur {
				continue
			}
			for _, o := range s.OwnOpts() {
				if o.Long != "" && scope.Long[d.FullLong(o)] == nil {
					sib, so = s, o
				}
			}
		}
		if sib == nil || scope.Cmds[sib.Name] != nil {
			kind = "near-miss"
			break
		}
		extraWord = []string{sib.Name}
		name = d.FullLong(so)
		tok = "--" + name
		if !so.T.IsFlag() {
			tok += "=" + GenScalarTextSimple(r, so)
		}
	case "empty-name":
		// "--=value": an option with an empty name. Options that have no flag name at all (ini-name only) do not
		// answer to it
		name = ""
		tok = "--=" + r.Pick([]string{"x", "3", "value"})
	case "positional-field-tag":
		// a long: tag on a field of a positional-args struct does not declare an option
		var pas []*PosArg
		for _, cm := range cur.Chain() {
			if cm.Pos != nil {
				for _, a := range cm.Pos.Args {
					if a.ExtraLong != "" {
						pas = append(pas, a)
					}
				}
			}
		}
		if len(pas) == 0 {
			kind = "near-miss"
			break
		}
		name = pas[r.Intn(len(pas))].ExtraLong
		tok = "--" + name + "=" + r.Pick([]string{"x", "3", "t1"})
	case "no-flag-field":
		// a name declared only inside a struct field tagged no-flag is not an option
		var nfs []*NoFlagField
		for _, cm := range cur.Chain() {
			var rec func(g *Grp)
			rec = func(g *Grp) {
				nfs = append(nfs, g.NoFlag...)
				for _, s := range g.Subs {
					rec(s)
				}
			}
			rec(cm.G)
		}
		if len(nfs) == 0 {
			kind = "near-miss"
			break
		}
		nf := nfs[r.Intn(len(nfs))]
		name = nf.Long
		if r.Bool() {
			name = nf.Long + "-level"
			tok = "--" + name + "=3"
		} else {
			tok = "--" + name + "=x"
		}
	case "out-of-scope":
		var ok bool
		tok, name, ok = outOfScopeToken(r, d, cur, scope)
		if !ok {
			kind = "near-miss"
		}
	case "cluster":
		var fl []*Opt
		for _, o := range scope.Addressable(d) {
			if o.T.IsFlag() && o.Short != 0 && scope.Short[o.Short] == o {
				fl = append(fl, o)
			}
		}
		if len(fl) == 0 {
			kind = "near-miss"
			break
		}
		pool := []rune("abcdefgijklmnopqrstuvwxyzABCDEFGHIJKLMNOPQRSTUVWXYZ0123456789éλ世")
		var u rune
		for try := 0; try < 50; try++ {
			u = pool[r.Intn(len(pool))]
			if scope.Short[u] == nil && !(opts&flags.HelpFlag != 0 && u == 'h') {
				break
			}
			u = 0
		}
		if u == 0 {
			kind = "near-miss"
			break
		}
		n := r.Range(1, 3)
		idx := r.Intn(n + 1)
		if idx == 0 {
			idx = 1 // an unknown first rune makes the whole token one unknown name; keep a known flag first
		}
		s := ""
		for i := 0; i <= n; i++ {
			if i == idx {
				s += string(u)
			} else {
				s += string(fl[r.Intn(len(fl))].Short)
			}
		}
		tok, name, cluster = "-"+s, string(u), true
	}
	if kind == "near-miss" {
		tok = UnknownToken(r, d, scope)
		name, _, _, _ = unknownName(tok)
		if !strings.HasPrefix(tok, "--") {
			// short form: the diagnostic names the first rune
			ru, _ := utf8.DecodeRuneInString(name)
			name = string(ru)
		}
	}
	if policy == "ignore" {
		// the passed-through token would be bound like a plain argument: keep contexts where that is well-defined
		if len(cur.Subs) > 0 && !cur.SubOptional {
			pend := cur.Pos != nil
			if !pend {
				c.Unspec("pass-through before a required command word")
				return
			}
		}
	}
	fault := &Item{Kind: IFault, Toks: append(append([]string{}, extraWord...), tok), Note: "unknown " + kind}
	var items []*Item
	items = append(items, valid[:pos]...)
	items = append(items, fault)
	items = append(items, valid[pos:]...)
	args := RenderItems(d, items)
	// the arguments not yet consumed when the unknown token is met
	before := len(RenderItems(d, valid[:pos]))
	pending := args[before+1+len(extraWord):]
	b := d.Build()
	if b.Err != nil {
		c.Violate("setup-error", "generated declaration rejected: %v", b.Err)
		return
	}
	var calls []unkCall
	hmode := int(c.K/3) % 4 // 0: prepend sentinel, 1: return args unchanged, 2: replace everything, 3: return an empty slice
	if policy == "handler" {
		b.P.UnknownOptionHandler = func(option string, arg flags.SplitArgument, a []string) ([]string, error) {
			v, ok := arg.Value()
			calls = append(calls, unkCall{option, v, ok, append([]string{}, a...)})
			switch hmode {
			case 0:
				return append([]string{sentinelTok}, a...), nil
			case 1:
				return a, nil
			case 3:
				if len(a)%2 == 0 {
					return nil, nil
				}
				return []string{}, nil
			}
			return []string{sentinelTok, sentinelTok}, nil
		}
	}
	if policy == "ignore" && (c.K/3)%3 == 2 {
		// IgnoreUnknown outranks an installed handler: the token is passed through and the handler is not asked
		b.P.UnknownOptionHandler = func(option string, arg flags.SplitArgument, a []string) ([]string, error) {
			v, ok := arg.Value()
			calls = append(calls, unkCall{option, v, ok, append([]string{}, a...)})
			if len(a) > 0 {
				return a[1:], nil
			}
			return a, nil
		}
	}
	c.Case(func() interface{} {
		return map[string]interface{}{"declaration": d.Describe(), "argv": fmt.Sprintf("%q", args), "intent": describeItems(d, items), "policy": policy, "unknown_token": tok, "context": cur.Name, "handler_mode": hmode}
	})
	warmed := false
	if policy == "fail" && (c.K/3)%3 == 1 && len(d.Cmds) > 1 {
		// the parser has been used before: an earlier parse (which selected some command) must not put anything in scope
		tw := d.Cmds[1+r.Intn(len(d.Cmds)-1)]
		w := GenScenario(c.Sub("warm"), d, &ScenCfg{MaxItems: 5, POcc: 40, PCluster: 5, PPos: 15, PCmd: 35, PTerm: 0, PQuoted: 0, Target: tw})
		if w.Exp.Unspec == "" {
			wa := w.Args()
			if pi := safely(func() { b.P.ParseArgs(wa) }); pi != nil {
				c.Violate("panic", "ParseArgs panicked during the earlier parse %q: %s", wa, pi.Value)
				return
			}
			b.Log.E = nil
			calls = nil
			warmed = true
			c.Note("earlier_parse_on_same_parser", fmt.Sprintf("%q", wa))
		}
	}
	o := RunParse(b, args)
	c.Count("parses", 1)
	if o.Panic != nil {
		c.Violate("panic", "ParseArgs panicked: %s", o.Panic.Value)
		return
	}
	cell := fmt.Sprintf("%s/%s", policy, kind)
	if warmed {
		cell += "/reused-parser"
	}
	shape := fmt.Sprintf("pos=%d/%d depth=%d long=%v", pos, pi, cur.Depth, strings.HasPrefix(tok, "--"))
	switch policy {
	case "fail":
		if o.FErr == nil || o.FErr.Type != flags.ErrUnknownFlag {
			c.Violate("fail:"+kind+":not-rejected", "unknown option %q in context %q: got %s (%v), want ErrUnknownFlag", tok, cur.Name, errTypeName(o.Err), o.Err)
			return
		}
		bq := backquoted(o.FErr.Message)
		if len(bq) == 0 || bq[0] != name {
			c.Violate("fail:"+kind+":wrong-name", "ErrUnknownFlag names %q, the unknown option is %q (token %q)", bq, name, tok)
			return
		}
		for _, e := range o.Log {
			if e.Kind == "execute" {
				c.Violate("fail:executed", "a command ran although the parse failed")
				return
			}
		}
		c.Held(cell, shape)
	case "ignore":
		if len(calls) > 0 {
			c.Violate("ignore:handler-called", "IgnoreUnknown is set, yet the unknown-option handler was called %d times (first for %q)", len(calls), calls[0].Name)
			return
		}
		if cluster {
			// the side effects of the cluster's known members are unspecified, but the token itself must be passed
			// through verbatim: model-free conservation (every returned/positional string is an input token)
			if o.Err != nil {
				if _, isSentinel := o.Err.(*sentinelErr); !isSentinel && o.FErr != nil && o.FErr.Type == flags.ErrUnknownFlag {
					c.Violate("ignore:cluster:rejected", "IgnoreUnknown: cluster %q made the parse fail: %v", tok, o.Err)
				} else {
					c.Unspec("cluster with an unknown rune under IgnoreUnknown: later effects unspecified")
				}
				return
			}
			tokset := map[string]bool{}
			for _, a := range args {
				tokset[a] = true
			}
			found := false
			for _, x := range o.Rest {
				if !tokset[x] {
					c.Violate("ignore:cluster:altered", "remaining argument %q is not an input token (cluster %q)", x, tok)
					return
				}
				if x == tok {
					found = true
				}
			}
			for _, cm := range d.Cmds {
				if cm.Pos == nil {
					continue
				}
				for _, a := range cm.Pos.Args {
					if !a.Val.IsValid() {
						continue
					}
					vals := posStrings(a)
					for _, x := range vals {
						if !tokset[x] {
							c.Violate("ignore:cluster:altered", "positional value %q is not an input token (cluster %q)", x, tok)
							return
						}
						if x == tok {
							found = true
						}
					}
				}
			}
			if !found {
				c.Violate("ignore:cluster:not-passed-through", "cluster %q was not passed through verbatim (rest %q)", tok, o.Rest)
				return
			}
			c.Held(cell, shape)
			return
		}
		dn := Denote(d, items)
		s2 := &Scenario{D: d, Items: items, Exp: dn.Exp, Final: dn.Final}
		if dn.Broken != "" || s2.NeedsCommand() {
			c.Unspec("pass-through blocks a later command word")
			return
		}
		if o.Err != nil {
			if _, isSentinel := o.Err.(*sentinelErr); !isSentinel {
				c.Violate("ignore:"+kind+":rejected", "IgnoreUnknown: unknown option %q made the parse fail: %v", tok, o.Err)
				return
			}
		}
		if sig, msg := CompareSuccess(s2, o, o.Err == nil); sig != "" {
			c.Violate("ignore:"+kind+":"+sig, "%s", msg)
			return
		}
		c.Held(cell, shape)
	case "handler":
		c.Count("handler_calls_observed", int64(len(calls)))
		if len(calls) != 1 {
			c.Violate("handler:"+kind+":call-count", "handler called %d times for one unknown option %q: %+v", len(calls), tok, calls)
			return
		}
		call := calls[0]
		if !eqStrs(call.Args, pending) {
			c.Violate("handler:"+kind+":pending-args", "handler received args %q, the not-yet-consumed arguments are %q", call.Args, pending)
			return
		}
		if !cluster {
			wn, wa, wh, _ := unknownName(tok)
			if call.Name != wn || call.HasArg != wh || call.Arg != wa {
				c.Violate("handler:"+kind+":name-or-arg", "handler received (%q, %q, %v), expected (%q, %q, %v) for token %q", call.Name, call.Arg, call.HasArg, wn, wa, wh, tok)
				return
			}
		}
		// what the handler returned is what is parsed next
		var after []*Item
		after = append(after, valid[:pos]...)
		switch hmode {
		case 0:
			after = append(after, &Item{Kind: IFlag, Opt: sentinel, Long: true})
			after = append(after, valid[pos:]...)
		case 1:
			after = append(after, valid[pos:]...)
		case 2:
			after = append(after, &Item{Kind: IFlag, Opt: sentinel, Long: true}, &Item{Kind: IFlag, Opt: sentinel, Long: true})
		case 3:
			// nothing is parsed after the unknown option
		}
		if cluster {
			// known members of the cluster before the unknown rune have taken effect: outside the statement
			c.Held(cell, shape)
			return
		}
		dn := Denote(d, after)
		s2 := &Scenario{D: d, Items: after, Exp: dn.Exp, Final: dn.Final}
		if dn.Broken != "" {
			c.Unspec(dn.Broken)
			return
		}
		if s2.NeedsCommand() || len(s2.MissingRequired()) > 0 || len(s2.UnmetPositionals()) > 0 {
			c.Held(cell+"/truncated", shape)
			return
		}
		if o.Err != nil {
			if _, isSentinel := o.Err.(*sentinelErr); !isSentinel {
				c.Violate("handler:"+kind+":rejected", "after the handler's rewrite the vector is valid but the parse failed: %v", o.Err)
				return
			}
		}
		if sig, msg := CompareSuccess(s2, o, o.Err == nil); sig != "" {
			c.Violate("handler:"+kind+":returned-slice-not-parsed:"+sig, "%s", msg)
			return
		}
		c.Held(cell, shape)
	}
}

func init() {
	register(&Property{
		ID:    "C07",
		Title: "Unknown options are never silently accepted",
		Cases: func(tier string) int64 {
			switch tier {
			case "thorough":
				return 1800000
			case "race":
				return 0
			}
			return 48000
		},
		Run:           c07Run,
		MinNontrivial: 300,
		Rule: "case k: policy = {fail, IgnoreUnknown, handler}[k mod 3]; a random tree (namespaces, several delimiters, non-ASCII short runes) and a valid intent vector into which one option-shaped token whose name is not defined in the context reached at a random item position is inserted: a near miss of a declared name (case flip, proper prefix, one character appended/prepended/substituted, namespace dropped or added), a fresh name, an option defined only in a sibling / not-yet-named command, or an unknown rune inside a cluster; long and short forms, with and without inline argument. " +
			"Oracle: fail => ErrUnknownFlag naming it, nothing executed; ignore => success and the token is passed through verbatim (exact remaining-argument/positional accounting); handler => called exactly once with (name, inline argument, not-yet-consumed arguments) and the slice it returns (sentinel flag prepended / unchanged / everything replaced) is what is parsed next. distinct = (policy, kind, position, depth, long/short).",
		Assumptions: []string{"for a cluster containing an unknown rune only 'called exactly once with the pending arguments' is asserted", "under IgnoreUnknown a cluster with an unknown rune is unspecified"},
		Technique:   "runtime reference-model monitor with single-fault injection at every position; recording stub for UnknownOptionHandler whose marked rewrite makes 'parsed next' observable; multi-step histories on one parser with direct oracles",
		LevelText:   "Fault enumeration by input over positions x policies x near-miss kinds, judged by a denotation oracle.",
		LevelNote:   "Trusted: scope model (which names are defined where); the handler stub.",
		DesignRef:   "§4 C07",
	})
}
