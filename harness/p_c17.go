package main

import (
	"bytes"
	"fmt"
	"strings"
	"unicode/utf8"

	flags "github.com/jessevdk/go-flags"
)

// C17: help layout is well-formed for every declaration and width.

var c17Scripts = [][]rune{
	[]rune("abcdefghijklmnopqrstuvwxyz"),
	[]rune("éèüöñçßåøàîôû"),
	[]rune("αβγδεζηθλμπσωφψ"),
	[]rune("бвгджзклмнпрстфхцчшщ"),
}

func c17Word(r *Rand, lo, hi int, script int) string {
	n := r.Range(lo, hi)
	al := c17Scripts[script]
	rs := make([]rune, n)
	for i := range rs {
		rs[i] = al[r.Intn(len(al))]
	}
	// an inner hyphen now and then (never at the end: a line-final '-' marks a hard break)
	if n > 4 && r.Chance(1, 10) {
		rs[n/2] = '-'
	}
	// printf verbs and percent signs are ordinary text
	if n > 2 && r.Chance(1, 12) {
		rs[0] = '%'
		if r.Bool() {
			rs[1] = []rune("dsvqx%")[r.Intn(6)]
		}
	}
	return string(rs)
}

func c17Desc(r *Rand, id int, script int, maxw int) string {
	var sb strings.Builder
	sb.WriteString(fmt.Sprintf("d%03dq", id))
	n := r.Range(0, 14)
	for i := 0; i < n; i++ {
		switch r.Intn(12) {
		case 0:
			sb.WriteString("\n")
		case 1:
			sb.WriteString("  ")
		case 2:
			sb.WriteString("\n\n")
		default:
			sb.WriteString(" ")
		}
		sc := script
		if r.Chance(1, 4) {
			sc = r.Intn(len(c17Scripts))
		}
		hi := 9
		if r.Chance(1, 6) {
			hi = maxw
		}
		sb.WriteString(c17Word(r, 1, hi, sc))
	}
	return sb.String()
}

type c17Row struct {
	First string
	Words []string
	Kind  string
	// MayBeAbsent: a visible option of a visible group that sits inside a hidden group; whether it is listed is
	// C16's subject (and unspecified there) - if it is listed, the layout rules apply to it
	MayBeAbsent bool
}

// c17Check verifies the layout of one help text.
func c17Check(out string, rows []c17Row, W int, legacyBytes bool) (string, string, int) {
	if !legacyBytes && !utf8.ValidString(out) {
		i := 0
		for i < len(out) {
			ru, n := utf8.DecodeRuneInString(out[i:])
			if ru == utf8.RuneError && n == 1 {
				break
			}
			i += n
		}
		lo := i - 20
		if lo < 0 {
			lo = 0
		}
		hi := i + 20
		if hi > len(out) {
			hi = len(out)
		}
		return "corrupted-utf8", fmt.Sprintf("output is not valid UTF-8 near %q", out[lo:hi]), 0
	}
	lines := strings.Split(out, "\n")
	D := -1
	for _, row := range rows {
		// locate the row's first description word
		li, col := -1, -1
		for i, ln := range lines {
			if j := strings.Index(ln, row.First); j >= 0 {
				li, col = i, utf8.RuneCountInString(ln[:j])
				break
			}
		}
		if li < 0 && row.MayBeAbsent {
			continue
		}
		if li < 0 {
			return "words:first-word-missing:" + row.Kind, fmt.Sprintf("first description word %q of a %s row not found in the help text", row.First, row.Kind), D
		}
		if D < 0 {
			D = col
		} else if col != D {
			return "alignment:" + row.Kind, fmt.Sprintf("description of %s row %q starts in column %d, other rows start in column %d", row.Kind, row.First, col, D), D
		}
		// collect the description block: the rest of the row line, then continuation lines
		var got []string
		pendingHyphen := false
		addTokens := func(text string) {
			toks := strings.Fields(text)
			for ti, t := range toks {
				if ti == 0 && pendingHyphen && len(got) > 0 {
					got[len(got)-1] += t
				} else {
					got = append(got, t)
				}
				pendingHyphen = false
			}
			if len(toks) > 0 {
				last := got[len(got)-1]
				if strings.HasSuffix(last, "-") {
					got[len(got)-1] = strings.TrimSuffix(last, "-")
					pendingHyphen = true
					if got[len(got)-1] == "" {
						got = got[:len(got)-1]
					}
				}
			}
		}
		byteCol := len(string([]rune(lines[li])[:col]))
		addTokens(lines[li][byteCol:])
		if W-D >= 10 && utf8.RuneCountInString(lines[li]) > W {
			return "too-wide:" + row.Kind, fmt.Sprintf("line %q is %d columns wide, terminal has %d (description column %d)", lines[li], utf8.RuneCountInString(lines[li]), W, D), D
		}
		i := li + 1
		for (len(got) < len(row.Words) || pendingHyphen) && i < len(lines) {
			ln := lines[i]
			i++
			if strings.TrimSpace(ln) == "" {
				continue
			}
			ind := 0
			for _, ru := range ln {
				if ru != ' ' {
					break
				}
				ind++
			}
			if ind != D {
				return "continuation-indent:" + row.Kind, fmt.Sprintf("continuation line %q of row %q is indented %d, description column is %d", ln, row.First, ind, D), D
			}
			if W-D >= 10 && utf8.RuneCountInString(ln) > W {
				return "too-wide:" + row.Kind, fmt.Sprintf("line %q is %d columns wide, terminal has %d (description column %d)", ln, utf8.RuneCountInString(ln), W, D), D
			}
			addTokens(ln)
		}
		if !eqStrs(got, row.Words) {
			// find first difference
			k := 0
			for k < len(got) && k < len(row.Words) && got[k] == row.Words[k] {
				k++
			}
			g, w := "<end>", "<end>"
			if k < len(got) {
				g = got[k]
			}
			if k < len(row.Words) {
				w = row.Words[k]
			}
			return "words:lost-or-corrupted:" + row.Kind, fmt.Sprintf("row %q: word %d recovered as %q, original %q (recovered %d words, original %d)", row.First, k, g, w, len(got), len(row.Words)), D
		}
	}
	return "", "", D
}

func c17Run(c *Ctx) {
	r := c.R
	// widths 1..300 exhaustively (k mod 301; 0 => fallback 80)
	W := int(c.K % 301)
	script := int((c.K / 301) % 4)
	nameScript := script
	if (c.K/1204)%2 == 0 {
		nameScript = 0 // ASCII names with any description script: keeps wrapping and padding concerns separable
	}
	eff := W
	if c.W.Pty == nil || !c.W.Pty.ok {
		c.Count("pty_unavailable", 1)
		eff = 80
	} else if !c.W.Pty.SetWidth(W) {
		c.Unspec("could not set the pty width")
		return
	}
	if W == 0 {
		eff = 80
	}
	cfg := &DeclCfg{
		MaxDepth: 2, MaxFan: 3, PCmds: 50, Types: []TypeSpec{{K: KString}, {K: KBool}, {K: KInt}, {K: KString, W: WSlice}, {K: KFloat64}, {K: KString, W: WMap, MapKey: KString}, {K: KOnOff}, {K: KOnOff, W: WSlice}},
		OptsMin: 1, OptsMax: 4, SubGroupsMax: 2, PInline: 20, NestMax: 2, PNamespace: 30, PShortOnly: 15, PLongOnly: 30, PChoices: 15,
		PPos: 50, PosMax: 3, PRest: 40, PByTag: 60, PSubOptional: 50, PAliases: 20, PDesc: 0, PValueName: 35, PDefault: 20, PHiddenGrp: 15, PHiddenCmd: 10, PHidden: 8,
		ParserOpts: []flags.Options{flags.HelpFlag, 0, flags.HelpFlag | flags.PassDoubleDash}, NoHelpNames: true,
		PosTypes: []TypeSpec{{K: KString}},
	}
	shortOnly := c.K%9 == 4
	if shortOnly {
		// every option has only a short name, no value name, no choices, no positionals and no built-in help flag:
		// the long-name column is empty (the layout rules hold all the same, also below a sub-command)
		cfg.PShortOnly, cfg.PLongOnly, cfg.PValueName, cfg.PChoices, cfg.PPos, cfg.PNamespace = 100, 0, 0, 0, 0, 0
		cfg.ParserOpts = []flags.Options{0, flags.PassDoubleDash}
		cfg.PCmds = 90
	}
	d := GenDecl(c.Sub("d"), cfg)
	// names, value names, choices, descriptions in the chosen scripts
	maxw := r.Range(8, 70)
	used := map[string]bool{}
	for _, o := range d.Opts {
		if o.Long != "" {
			for try := 0; try < 20; try++ {
				n := c17Word(r, 1, []int{6, 12, 40}[r.Intn(3)], nameScript)
				n = strings.Trim(n, "-")
				if n == "" || used[n] || n == "help" || n == "h" {
					continue
				}
				used[n] = true
				o.Long = n
				break
			}
		}
		if o.Short != 0 && nameScript != 0 && r.Bool() {
			for try := 0; try < 20; try++ {
				ru := c17Scripts[nameScript][r.Intn(len(c17Scripts[nameScript]))]
				if !used[string(ru)] {
					used[string(ru)] = true
					o.Short = ru
					break
				}
			}
		}
		if o.ValueName != "" {
			o.ValueName = strings.ToUpper(c17Word(r, 1, 8, 0))
			if nameScript != 0 {
				o.ValueName = c17Word(r, 1, 8, nameScript)
			}
		}
		if len(o.Choices) > 0 && o.T.K == KString && nameScript != 0 {
			o.Choices = []string{c17Word(r, 1, 5, nameScript), c17Word(r, 6, 9, nameScript)}
			o.Defaults = nil
		}
		if r.Chance(4, 5) {
			o.Desc = c17Desc(r, o.ID, script, maxw)
		}
		o.Env, o.DefaultMask = "", ""
		for _, dv := range o.Defaults {
			plain := dv != ""
			for _, ch := range dv {
				if !(ch >= 'a' && ch <= 'z' || ch >= 'A' && ch <= 'Z' || ch >= '0' && ch <= '9' || ch == '.' || ch == ':' || ch == ',') {
					plain = false
				}
			}
			if !plain {
				o.Defaults = nil // the rendering of unusual defaults is C16's concern, not the layout's
				break
			}
		}
	}
	// uniqueness of short/long inside each command was established by the generator for its own names; the
	// replacement names are globally unique.
	for _, cm := range d.Cmds[1:] {
		// command names (and descriptions, shown under "Available commands") in the script as well
		if nameScript != 0 && r.Bool() {
			for try := 0; try < 10; try++ {
				n := strings.Trim(c17Word(r, 2, 12, nameScript), "-%")
				if n != "" && !used[n] && !strings.HasPrefix(n, "-") {
					used[n] = true
					cm.Name = n
					break
				}
			}
		}
		if r.Chance(2, 3) {
			cm.Desc = fmt.Sprintf("cd%03d ", cm.ID) + c17Word(r, 1, 9, script)
		}
	}
	for _, cm := range d.Cmds {
		if cm.Pos == nil {
			continue
		}
		for _, a := range cm.Pos.Args {
			id := d.NewID()
			a.Name = c17Word(r, 1, []int{5, 14, 30}[r.Intn(3)], nameScript)
			if r.Chance(4, 5) {
				a.Desc = c17Desc(r, id, script, maxw)
			} else {
				a.Desc = ""
			}
		}
	}
	if c.K%37 == 11 {
		// one entry far wider than any terminal (and than any fixed padding buffer): the common column still holds
		for _, o := range d.Opts {
			if !o.T.IsFlag() && !o.Hidden && o.Cmd == d.Root && !o.Grp.Hidden {
				o.ValueName = "V" + strings.Repeat("w", r.Range(250, 340))
				break
			}
		}
	}
	b := d.Build()
	if b.Err != nil {
		c.Unspec("declaration rejected (name collision after renaming): " + errTypeName(b.Err))
		return
	}
	legacyBytes := false
	if script == 1 && c.K%3 == 1 && d.resolveLive(b) == "" {
		// descriptions from a message catalogue in a legacy single-byte encoding (assigned through the public
		// Description field): every byte that is not part of a valid UTF-8 sequence is one character of unknown
		// width 1 - the words are kept byte for byte and the layout rules hold
		for _, o := range d.Opts {
			if o.FO == nil || o.Desc == "" {
				continue
			}
			var bs []byte
			for _, ru := range o.Desc {
				if ru >= 0x80 && ru < 0x100 {
					bs = append(bs, byte(ru))
				} else {
					bs = append(bs, string(ru)...)
				}
			}
			if len(bs) != len(o.Desc) {
				o.Desc = string(bs)
				o.FO.Description = o.Desc
				legacyBytes = true
			}
		}
	}
	// choose an active chain
	var chain []*Cmd
	cur := d.Root
	for len(cur.Subs) > 0 && r.Chance(2, 3) {
		cur = cur.Subs[r.Intn(len(cur.Subs))]
		chain = append(chain, cur)
	}
	// route A: really parse "<command words> --help" (built-in help row and defaults are shown);
	// route B: set the active chain and call WriteHelp directly.
	routeA := d.Options&flags.HelpFlag != 0 && r.Bool()
	if routeA {
		if d.Root.Pos != nil && len(chain) > 0 {
			routeA = false
		}
		for i, cm := range chain {
			if cm.Pos != nil && i < len(chain)-1 {
				routeA = false
			}
		}
	}
	if !routeA {
		fc := b.P.Command
		for _, cm := range chain {
			if cm.FC == nil {
				c.Unspec("command handle missing")
				return
			}
			fc.Active = cm.FC
			fc = cm.FC
		}
	}
	// rows expected in the help text
	var rows []c17Row
	active := append([]*Cmd{d.Root}, chain...)
	if routeA {
		rows = append(rows, c17Row{First: "Show", Words: strings.Fields("Show this help message"), Kind: "builtin"})
	}
	for _, cm := range active {
		for _, o := range cm.OwnOpts() {
			if o.Desc == "" || o.Hidden || o.Grp.Hidden {
				continue
			}
			inHidden := o.Cmd.Hidden // (a hidden command is a hidden group: its own options are left out when it is active)
			for g := o.Grp.Parent; g != nil; g = g.Parent {
				inHidden = inHidden || g.Hidden
			}
			text := o.Desc
			if routeA && len(o.Defaults) > 0 && !o.T.IsFlag() {
				var q []string
				for _, dv := range o.Defaults {
					q = append(q, quoteIfNeededRef(dv))
				}
				text += " (default: " + strings.Join(q, ", ") + ")"
			}
			rows = append(rows, c17Row{First: strings.Fields(o.Desc)[0], Words: strings.Fields(text), Kind: "option", MayBeAbsent: inHidden})
		}
		if cm.Pos != nil {
			for _, a := range cm.Pos.Args {
				if a.Desc != "" {
					rows = append(rows, c17Row{First: strings.Fields(a.Desc)[0], Words: strings.Fields(a.Desc), Kind: "argument"})
				}
			}
		}
	}
	var buf bytes.Buffer
	c.Case(func() interface{} {
		var cn []string
		for _, cm := range chain {
			cn = append(cn, cm.Name)
		}
		return map[string]interface{}{"declaration": d.Describe(), "terminal_width": W, "effective_width": eff, "active_chain": cn, "rows": len(rows)}
	})
	histWiden := false
	pi := safely(func() {
		if !routeA && c.K%7 == 0 && c.W.Pty != nil && c.W.Pty.ok {
			// an earlier help at another terminal width must not influence this one
			var discard bytes.Buffer
			c.W.Pty.SetWidth(37 + int(c.K%200))
			b.P.WriteHelp(&discard)
			c.W.Pty.SetWidth(W)
		}
		if !routeA && c.K%5 == 3 && d.resolveLive(b) == "" {
			// help was laid out once; then the program widens an entry (value name, choices, namespace, long name):
			// the next help is laid out for the entries as they are now
			var discard bytes.Buffer
			b.P.WriteHelp(&discard)
			var os []*Opt
			for _, cm := range active {
				for _, o := range cm.OwnOpts() {
					if o.FO != nil && !o.Hidden && !o.T.IsFlag() {
						os = append(os, o)
					}
				}
			}
			if len(os) > 0 {
				o := os[r.Intn(len(os))]
				wide := strings.Repeat("w", r.Range(3, 40))
				switch r.Intn(4) {
				case 0:
					o.FO.ValueName = "V" + wide
				case 1:
					o.FO.Choices = append(append([]string{}, o.FO.Choices...), wide)
				case 2:
					if o.Grp.FG != nil {
						o.Grp.FG.Namespace = "ns" + wide
					}
				default:
					if o.FO.LongName != "" {
						o.FO.LongName += "-" + wide
					}
				}
				histWiden = true
			}
		}
		if routeA {
			var words []string
			for _, cm := range chain {
				words = append(words, cm.Name)
			}
			_, err := b.P.ParseArgs(append(words, "--help"))
			if fe, ok := err.(*flags.Error); ok && fe.Type == flags.ErrHelp {
				buf.WriteString(fe.Message)
			} else {
				buf.WriteString(fmt.Sprintf("<<no ErrHelp: %v>>", err))
			}
		} else {
			b.P.WriteHelp(&buf)
		}
	})
	c.Count("help_texts_generated", 1)
	if pi != nil {
		c.Violate("panic:"+panicSite(pi.Stack), "WriteHelp panicked at width %d: %s", W, pi.Value)
		c.Note("stack", pi.Stack)
		return
	}
	out := buf.String()
	c.Count("help_bytes", int64(len(out)))
	if strings.HasPrefix(out, "<<no ErrHelp") {
		c.Violate("help-request-not-answered", "parsing the chain + --help did not return ErrHelp: %s", out)
		return
	}
	if len(rows) < 1 {
		return
	}
	// the built-in help row belongs to the root; its first "word" is a phrase: find by phrase, words as given
	sig, msg, D := c17Check(out, rows, eff, legacyBytes)
	if sig != "" {
		c.Violate(sig, "width %d: %s", W, msg)
		c.Note("help", clip(out, 4000))
		return
	}
	c.Count(map[bool]string{true: "via_parse_help", false: "via_writehelp"}[routeA], 1)
	cell := fmt.Sprintf("w%03d-%03d/%s", (W/50)*50, (W/50)*50+49, []string{"ascii", "latin1", "greek", "cyrillic"}[script])
	if nameScript != 0 {
		cell += "/names-nonascii"
	}
	if legacyBytes {
		cell += "/descriptions-in-single-byte-encoding"
	}
	c.Held(cell, fmt.Sprintf("W=%d D=%d rows=%d chain=%d widened-after-first-help=%v", W, D, len(rows), len(chain), histWiden))
}

// quoteIfNeededRef: a default is shown quoted iff it contains non-printable characters (not generated here).
func quoteIfNeededRef(s string) string { return s }

func init() {
	register(&Property{
		ID:    "C17",
		Title: "Help layout is well-formed for every declaration and width",
		Cases: func(tier string) int64 {
			switch tier {
			case "thorough":
				return 301 * 3000
			case "race":
				return 0
			}
			return 301 * 60
		},
		Run:              c17Run,
		MinNontrivial:    300,
		NeedPty:          true,
		DeathIsViolation: true,
		Rule: "case k: terminal width k mod 301 (every width 1..300 and 0 => fallback 80, set with TIOCSWINSZ on a real pseudo-terminal attached to fd 0) x description script {ASCII, Latin-1, Greek, Cyrillic} x {ASCII names, names in the same script}; a random declaration (nested groups, commands with indentation, positional arguments) whose long names (1-40 characters), short names, value names, choices, positional names and descriptions (0-14 words of 1-9 or up to 70 characters, embedded newlines, runs of blanks) are drawn from the script; a random active chain. " +
			"Layout monitor over the lines of WriteHelp's output: no panic; valid UTF-8; the unique first word of every option/argument description starts in one common column D; continuation lines are indented exactly D; no description line is wider than the terminal when W-D >= 10; the words recovered from the block (line-final '-' elided) equal the original words in order. distinct = (W, D, #rows, chain length).",
		Assumptions: []string{"single-column scripts only: rune count = display columns (CJK / combining characters excluded)", "description words never end in '-', so a line-final '-' is a hard-break hyphen", "if no pty can be opened the check explores width 80 only and says so (pty_unavailable)"},
		Technique:   "runtime invariant monitor over generated help text with the terminal width driven through a real pty (TIOCSWINSZ on fd 0); exhaustive width enumeration; multi-step histories on one parser with direct oracles",
		LevelText:   "Exploration with exhaustive width enumeration (every width 0..300 at every seed) across scripts and name lengths; the layout invariants are checked on the bytes actually written.",
		LevelNote:   "Trusted: the pty really controls getTerminalColumns (verified per case by reading the width back); the word-recovery procedure.",
		DesignRef:   "§4 C17",
	})
}
