package main

import (
	"fmt"
	"reflect"
	"sort"
	"strconv"
	"strings"

	flags "github.com/jessevdk/go-flags"
)

// ---------------------------------------------------------------------------
// Execution of the real parser and observation at the API boundary
// ---------------------------------------------------------------------------

type ParseObs struct {
	Rest    []string
	Err     error
	FErr    *flags.Error
	Panic   *PanicInfo
	Snap    map[string]string
	Log     []CallEntry
	Active  []string
	Out1    string
	Out2    string
	Handler []CallEntry
	// ArgsTouched: the argument vector handed to ParseArgs was written to (it belongs to the caller: os.Args, or a
	// vector that is parsed a second time)
	ArgsTouched string
}

func errTypeName(e error) string {
	if e == nil {
		return "nil"
	}
	if fe, ok := e.(*flags.Error); ok {
		return "flags.Error/" + fe.Type.String()
	}
	return fmt.Sprintf("%T", e)
}

// RunParse calls ParseArgs on a built parser and records everything observable.
func RunParse(b *Built, args []string) *ParseObs {
	o := &ParseObs{}
	if b.Err != nil {
		o.Err = b.Err
		if fe, ok := b.Err.(*flags.Error); ok {
			o.FErr = fe
		}
		return o
	}
	cp := make([]string, len(args))
	copy(cp, args)
	o.Panic = safely(func() {
		o.Rest, o.Err = b.P.ParseArgs(cp)
	})
	for i := range cp {
		if cp[i] != args[i] {
			o.ArgsTouched = fmt.Sprintf("ParseArgs wrote to the argument vector it was given: element %d was %q and is now %q", i, args[i], cp[i])
			break
		}
	}
	if fe, ok := o.Err.(*flags.Error); ok {
		o.FErr = fe
	}
	o.Snap = b.D.Snapshot()
	o.Log = b.Log.E
	for c := b.P.Command.Active; c != nil; c = c.Active {
		o.Active = append(o.Active, c.Name)
		if len(o.Active) > 64 {
			o.Active = append(o.Active, "<cycle in the Active chain>")
			break
		}
	}
	return o
}

func chainNames(ch []*Cmd) []string {
	var r []string
	for _, c := range ch[1:] {
		r = append(r, c.Name)
	}
	return r
}

func eqStrs(a, b []string) bool {
	if len(a) != len(b) {
		return false
	}
	for i := range a {
		if a[i] != b[i] {
			return false
		}
	}
	return true
}

func callbacksOnly(l []CallEntry) []CallEntry {
	var r []CallEntry
	for _, e := range l {
		if e.Kind == "callback" {
			r = append(r, e)
		}
	}
	return r
}

func eqCalls(a, b []CallEntry) bool {
	if len(a) != len(b) {
		return false
	}
	for i := range a {
		if a[i].Kind != b[i].Kind || a[i].ID != b[i].ID || !eqStrs(a[i].Args, b[i].Args) {
			return false
		}
	}
	return true
}

// CompareSuccess checks a successful parse against the denotation. It returns "" or the first mismatch
// as (signature-fragment, message).
func CompareSuccess(sc *Scenario, o *ParseObs, checkRest bool) (string, string) {
	d := sc.D
	e := sc.Exp
	for _, opt := range d.Opts {
		if !opt.Val.IsValid() {
			continue
		}
		want, ok := e.FinalValue(opt)
		if !ok || e.ValueUnspec[opt] {
			continue
		}
		got := o.Snap["o"+itoa(opt.ID)]
		if got != want {
			kind := "unmentioned"
			if e.Seen[opt] > 0 {
				kind = "occurred"
			}
			return "value:" + opt.T.String() + ":" + kind, fmt.Sprintf("option %s (%s, %s): field holds %s, command line denotes %s", opt.Field, d.OptString(opt), opt.T, got, want)
		}
	}
	if !eqCalls(callbacksOnly(o.Log), e.Calls) {
		return "callbacks", fmt.Sprintf("callback log %v, expected %v", callbacksOnly(o.Log), e.Calls)
	}
	if msg := aliasDamage(d); msg != "" {
		return "program-data-overwritten", msg
	}
	if o.ArgsTouched != "" {
		return "argument-vector-overwritten", o.ArgsTouched
	}
	for gi, g := range d.Grps {
		for pi, pf := range g.Plain {
			if !pf.Val.IsValid() {
				continue
			}
			if got := o.Snap[fmt.Sprintf("plain%d.%d", gi, pi)]; got != pf.Init {
				return "plain-field", fmt.Sprintf("untagged field %s changed from %s to %s", pf.Field, pf.Init, got)
			}
		}
	}
	for gi, g := range d.Grps {
		for ni, nf := range g.NoFlag {
			if !nf.Val.IsValid() {
				continue
			}
			if got := o.Snap[fmt.Sprintf("noflag%d.%d", gi, ni)]; got != `("nf-canary",41)` {
				return "no-flag-field", fmt.Sprintf("fields inside the no-flag struct %s changed to %s", nf.Field, got)
			}
		}
	}
	for _, c := range d.Cmds {
		if c.Pos == nil {
			continue
		}
		for i, a := range c.Pos.Args {
			if !a.Val.IsValid() {
				continue
			}
			got := o.Snap[fmt.Sprintf("p%d.%d", c.ID, i)]
			want, ok := expectedPos(a, e.PosVals[a])
			if !ok {
				continue
			}
			if got != want {
				return "positional:" + a.T.String(), fmt.Sprintf("positional %s of command %s holds %s, expected %s (tokens %q)", a.DisplayName(), c.Name, got, want, e.PosVals[a])
			}
		}
	}
	if !eqStrs(o.Active, chainNames(e.Chain)) {
		return "active-chain", fmt.Sprintf("active chain %v, expected %v", o.Active, chainNames(e.Chain))
	}
	if checkRest && !eqStrs(o.Rest, e.Rest) {
		return "rest", fmt.Sprintf("remaining arguments %q, expected %q", o.Rest, e.Rest)
	}
	return "", ""
}

func expectedPos(a *PosArg, toks []string) (string, bool) {
	if a.PtrSlice {
		if len(toks) == 0 {
			return "nil", true
		}
		var q []string
		for _, t := range toks {
			q = append(q, strconv.Quote(t))
		}
		return "&[" + strings.Join(q, " ") + "]", true
	}
	v := newZero(a.T)
	for _, t := range toks {
		if !applyRef(v, a.T, a.Base, t) {
			return "", false
		}
	}
	return Canon(v), true
}

// backquoted extracts the `name' items of a go-flags message.
func backquoted(msg string) []string {
	var r []string
	for {
		i := strings.IndexByte(msg, '`')
		if i < 0 {
			break
		}
		msg = msg[i+1:]
		j := strings.IndexAny(msg, "'`")
		if j < 0 {
			break
		}
		r = append(r, msg[:j])
		msg = msg[j+1:]
	}
	return r
}

func sortedCopy(s []string) []string {
	c := append([]string{}, s...)
	sort.Strings(c)
	return c
}

func caseOf(sc *Scenario, args []string, extra map[string]interface{}) func() interface{} {
	return func() interface{} {
		m := map[string]interface{}{
			"declaration": sc.D.Describe(),
			"argv":        fmt.Sprintf("%q", args),
			"intent":      describeItems(sc.D, sc.Items),
		}
		for k, v := range extra {
			m[k] = v
		}
		return m
	}
}

func sortStrings(s []string) { sort.Strings(s) }

// posStrings lists the string values a string-kinded positional holds (scalar, list or pointer-to-list).
func posStrings(a *PosArg) []string {
	var vals []string
	v := a.Val
	if a.PtrSlice {
		if v.IsNil() {
			return nil
		}
		v = v.Elem()
	}
	switch v.Kind() {
	case reflect.Slice:
		for i := 0; i < v.Len(); i++ {
			vals = append(vals, v.Index(i).String())
		}
	case reflect.String:
		if v.String() != "" {
			vals = append(vals, v.String())
		}
	}
	return vals
}
