package main

import (
	"math"
	"math/big"
	"reflect"
	"strings"
)

// Independent reference conversions, written from the property text (C11). They do not call the
// strconv parsing functions go-flags delegates to (ParseInt/ParseUint/ParseFloat/ParseBool/ParseDuration).

type Class int

const (
	MustAccept Class = iota // canonical spelling, in range: must be accepted, stored value == reference value
	MustReject              // no reading even under a liberal grammar, or out of range: must be rejected
	MayEither               // liberal-only form: either outcome allowed; if accepted and HasVal, value must match
)

func (c Class) String() string { return [...]string{"must-accept", "must-reject", "may-either"}[c] }

type RefVal struct {
	Cls    Class
	HasVal bool
	Val    reflect.Value // of the scalar Go type
	Why    string
}

func digitVal(c byte) int {
	switch {
	case c >= '0' && c <= '9':
		return int(c - '0')
	case c >= 'a' && c <= 'z':
		return int(c-'a') + 10
	case c >= 'A' && c <= 'Z':
		return int(c-'A') + 10
	}
	return 99
}

// parseDigits reads one or more base-b digits; allowUnderscore strips '_' between digits (liberal).
func parseDigits(s string, base int) (*big.Int, bool) {
	if s == "" {
		return nil, false
	}
	v := new(big.Int)
	b := big.NewInt(int64(base))
	for i := 0; i < len(s); i++ {
		d := digitVal(s[i])
		if d >= base {
			return nil, false
		}
		v.Mul(v, b)
		v.Add(v, big.NewInt(int64(d)))
	}
	return v, true
}

func intRange(k TK) (lo, hi *big.Int) {
	bits := uint(intBits(k))
	one := big.NewInt(1)
	if isSIntKind(k) {
		hi = new(big.Int).Lsh(one, bits-1)
		lo = new(big.Int).Neg(hi)
		hi.Sub(hi, one)
		return
	}
	lo = big.NewInt(0)
	hi = new(big.Int).Lsh(one, bits)
	hi.Sub(hi, one)
	return
}

func refInt(k TK, base int, s string) RefVal {
	mk := func(v *big.Int, cls Class, why string) RefVal {
		lo, hi := intRange(k)
		if v.Cmp(lo) < 0 || v.Cmp(hi) > 0 {
			return RefVal{Cls: MustReject, Why: "out of range"}
		}
		rv := reflect.New(scalarType(k)).Elem()
		if isSIntKind(k) {
			rv.SetInt(v.Int64())
		} else {
			rv.SetUint(v.Uint64())
		}
		return RefVal{Cls: cls, HasVal: true, Val: rv, Why: why}
	}
	body := s
	neg := false
	liberal := ""
	if strings.HasPrefix(body, "-") {
		neg = true
		body = body[1:]
		if isUIntKind(k) {
			liberal = "minus on unsigned"
		}
	} else if strings.HasPrefix(body, "+") {
		body = body[1:]
		liberal = "plus sign"
	}
	if v, ok := parseDigits(body, base); ok {
		if neg {
			v.Neg(v)
		}
		if liberal != "" {
			r := mk(v, MayEither, liberal)
			if r.Cls == MustReject {
				return r
			}
			return r
		}
		return mk(v, MustAccept, "canonical")
	}
	// liberal readings: base prefix matching the declared base, underscores
	lb := strings.ToLower(body)
	stripped := strings.ReplaceAll(lb, "_", "")
	for _, pf := range []struct {
		p string
		b int
	}{{"0x", 16}, {"0b", 2}, {"0o", 8}} {
		if pf.b == base && strings.HasPrefix(stripped, pf.p) {
			stripped = stripped[2:]
		}
	}
	if stripped != lb && stripped != "" {
		if v, ok := parseDigits(stripped, base); ok {
			if neg {
				v.Neg(v)
			}
			r := mk(v, MayEither, "prefix/underscore form")
			if r.Cls == MustReject {
				// out of range under the liberal reading; under the strict one it is not a number at all
				return RefVal{Cls: MustReject, Why: "liberal form out of range"}
			}
			return r
		}
	}
	return RefVal{Cls: MustReject, Why: "not a base-" + itoa(base) + " integer"}
}

// BaseAuto stands for the tag base:"0": the base is implied by the text's prefix (0x, 0o, 0b, a leading 0 for
// octal, decimal otherwise), as strconv documents for base 0.
const BaseAuto = -1

func refIntAuto(k TK, s string) RefVal {
	body := s
	sign := ""
	if strings.HasPrefix(body, "-") || strings.HasPrefix(body, "+") {
		sign, body = body[:1], body[1:]
	}
	base := 10
	lb := strings.ToLower(body)
	switch {
	case strings.HasPrefix(lb, "0x"):
		base, body = 16, body[2:]
	case strings.HasPrefix(lb, "0b"):
		base, body = 2, body[2:]
	case strings.HasPrefix(lb, "0o"):
		base, body = 8, body[2:]
	case len(body) > 1 && body[0] == '0':
		base, body = 8, body[1:]
	}
	if strings.Contains(body, "_") {
		// underscores are legal only in some positions; not judged
		r := refInt(k, base, sign+strings.ReplaceAll(body, "_", ""))
		if r.Cls == MustAccept {
			r.Cls = MayEither
		}
		return r
	}
	if body == "" || strings.HasPrefix(body, "-") || strings.HasPrefix(body, "+") {
		return RefVal{Cls: MustReject, Why: "no digits"}
	}
	if _, ok := parseDigits(body, base); !ok {
		return RefVal{Cls: MustReject, Why: "not an integer in the base its prefix implies"}
	}
	return refInt(k, base, sign+body)
}

func itoa(i int) string { return big.NewInt(int64(i)).String() }

// decimal float grammar: [+-] digits [. digits] [eE [+-] digits]  |  [+-] . digits [...]
func parseDecimal(s string) (r *big.Rat, neg bool, plus bool, ok bool, hugeExp bool) {
	i := 0
	if i < len(s) && (s[i] == '-' || s[i] == '+') {
		neg = s[i] == '-'
		plus = s[i] == '+'
		i++
	}
	start := i
	mant := new(big.Int)
	nd := 0
	for i < len(s) && s[i] >= '0' && s[i] <= '9' {
		mant.Mul(mant, big.NewInt(10))
		mant.Add(mant, big.NewInt(int64(s[i]-'0')))
		i++
		nd++
	}
	frac := 0
	if i < len(s) && s[i] == '.' {
		i++
		for i < len(s) && s[i] >= '0' && s[i] <= '9' {
			mant.Mul(mant, big.NewInt(10))
			mant.Add(mant, big.NewInt(int64(s[i]-'0')))
			i++
			nd++
			frac++
		}
	}
	if nd == 0 || i == start {
		return nil, neg, plus, false, false
	}
	exp := 0
	if i < len(s) && (s[i] == 'e' || s[i] == 'E') {
		i++
		eneg := false
		if i < len(s) && (s[i] == '-' || s[i] == '+') {
			eneg = s[i] == '-'
			i++
		}
		es := i
		for i < len(s) && s[i] >= '0' && s[i] <= '9' {
			if exp < 1000000 {
				exp = exp*10 + int(s[i]-'0')
			}
			i++
		}
		if i == es {
			return nil, neg, plus, false, false
		}
		if eneg {
			exp = -exp
		}
	}
	if i != len(s) {
		return nil, neg, plus, false, false
	}
	exp -= frac
	if exp > 6000 || exp < -6000 {
		return nil, neg, plus, true, true
	}
	r = new(big.Rat).SetInt(mant)
	p := new(big.Int).Exp(big.NewInt(10), big.NewInt(int64(abs(exp))), nil)
	if exp >= 0 {
		r.Mul(r, new(big.Rat).SetInt(p))
	} else {
		r.Quo(r, new(big.Rat).SetInt(p))
	}
	if neg {
		r.Neg(r)
	}
	return r, neg, plus, true, false
}

func abs(i int) int {
	if i < 0 {
		return -i
	}
	return i
}

func refFloat(k TK, s string) RefVal {
	r, neg, plus, ok, huge := parseDecimal(s)
	if huge {
		return RefVal{Cls: MayEither, Why: "exponent beyond the reference's range"}
	}
	if !ok {
		ls := strings.ToLower(strings.TrimLeft(s, "+-"))
		switch ls {
		case "inf", "infinity", "nan":
			rv := reflect.New(scalarType(k)).Elem()
			if ls == "nan" {
				rv.SetFloat(math.NaN())
			} else if strings.HasPrefix(s, "-") {
				rv.SetFloat(math.Inf(-1))
			} else {
				rv.SetFloat(math.Inf(1))
			}
			if strings.Count(s, "+")+strings.Count(s, "-") > 1 {
				return RefVal{Cls: MustReject, Why: "double sign"}
			}
			return RefVal{Cls: MayEither, HasVal: true, Val: rv, Why: "special float form"}
		}
		if strings.HasPrefix(ls, "0x") || strings.Contains(ls, "_") {
			return RefVal{Cls: MayEither, Why: "hex/underscore float form"}
		}
		return RefVal{Cls: MustReject, Why: "not a decimal float"}
	}
	rv := reflect.New(scalarType(k)).Elem()
	var f float64
	if k == KFloat32 {
		f32, _ := r.Float32()
		f = float64(f32)
	} else {
		f, _ = r.Float64()
	}
	if math.IsInf(f, 0) {
		return RefVal{Cls: MustReject, Why: "overflows the type"}
	}
	if f == 0 && neg {
		f = math.Copysign(0, -1)
	}
	rv.SetFloat(f)
	cls := MustAccept
	why := "canonical"
	if plus {
		cls, why = MayEither, "plus sign"
	}
	if f == 0 && r.Sign() != 0 {
		cls, why = MayEither, "underflows to zero"
	}
	return RefVal{Cls: cls, HasVal: true, Val: rv, Why: why}
}

var durUnits = map[string]int64{"ns": 1, "us": 1e3, "µs": 1e3, "μs": 1e3, "ms": 1e6, "s": 1e9, "m": 60e9, "h": 3600e9}

func refDuration(s string) RefVal {
	orig := s
	neg := false
	sign := ""
	if s != "" && (s[0] == '-' || s[0] == '+') {
		neg = s[0] == '-'
		sign = s[:1]
		s = s[1:]
	}
	mk := func(total *big.Rat, cls Class, why string) RefVal {
		if neg {
			total.Neg(total)
		}
		if !total.IsInt() {
			return RefVal{Cls: MayEither, Why: "sub-nanosecond fraction"}
		}
		v := total.Num()
		lo, hi := intRange(KInt64)
		if v.Cmp(lo) < 0 || v.Cmp(hi) > 0 {
			return RefVal{Cls: MustReject, Why: "out of range"}
		}
		if v.Cmp(lo) == 0 {
			cls, why = MayEither, "exactly the minimum duration"
		}
		rv := reflect.New(tDuration).Elem()
		rv.SetInt(v.Int64())
		return RefVal{Cls: cls, HasVal: true, Val: rv, Why: why}
	}
	if s == "0" {
		if sign == "+" {
			return mk(new(big.Rat), MayEither, "plus sign")
		}
		return mk(new(big.Rat), MustAccept, "zero")
	}
	if s == "" {
		return RefVal{Cls: MustReject, Why: "empty"}
	}
	total := new(big.Rat)
	cls := MustAccept
	why := "canonical"
	if sign == "+" {
		cls, why = MayEither, "plus sign"
	}
	for s != "" {
		// number
		i := 0
		for i < len(s) && s[i] >= '0' && s[i] <= '9' {
			i++
		}
		intPart := s[:i]
		fracPart := ""
		hasDot := false
		if i < len(s) && s[i] == '.' {
			hasDot = true
			j := i + 1
			for j < len(s) && s[j] >= '0' && s[j] <= '9' {
				j++
			}
			fracPart = s[i+1 : j]
			i = j
		}
		if intPart == "" && fracPart == "" {
			return RefVal{Cls: MustReject, Why: "missing number"}
		}
		s = s[i:]
		// unit: longest run of non-digit, non-dot bytes
		j := 0
		for j < len(s) && s[j] != '.' && (s[j] < '0' || s[j] > '9') {
			j++
		}
		u, okU := durUnits[s[:j]]
		if j == 0 || !okU {
			return RefVal{Cls: MustReject, Why: "missing or unknown unit"}
		}
		s = s[j:]
		if len(intPart)+len(fracPart) > 40 {
			return RefVal{Cls: MayEither, Why: "very long number"}
		}
		n := new(big.Rat)
		if intPart != "" {
			v, _ := parseDigits(intPart, 10)
			n.SetInt(v)
		}
		if fracPart != "" {
			v, _ := parseDigits(fracPart, 10)
			den := new(big.Int).Exp(big.NewInt(10), big.NewInt(int64(len(fracPart))), nil)
			n.Add(n, new(big.Rat).SetFrac(v, den))
			// the fraction is exactly representable only if 10^d divides the unit
			if new(big.Int).Mod(big.NewInt(u), den).Sign() != 0 {
				cls, why = MayEither, "fraction finer than the unit allows exactly"
			}
		}
		if hasDot && (intPart == "" || fracPart == "") {
			if cls == MustAccept {
				cls, why = MayEither, "bare dot form"
			}
		}
		n.Mul(n, new(big.Rat).SetInt64(u))
		total.Add(total, n)
		// intermediate overflow of a component is a rejection in any reading only if the total overflows;
		// a component beyond int64 whose total (with sign) is in range cannot occur (all components add).
	}
	_ = orig
	return mk(total, cls, why)
}

func refBool(s string) RefVal {
	mkb := func(b bool, cls Class, why string) RefVal {
		rv := reflect.New(tBool).Elem()
		rv.SetBool(b)
		return RefVal{Cls: cls, HasVal: true, Val: rv, Why: why}
	}
	switch s {
	case "true":
		return mkb(true, MustAccept, "canonical")
	case "false":
		return mkb(false, MustAccept, "canonical")
	case "1", "t", "T", "TRUE", "True":
		return mkb(true, MayEither, "liberal boolean")
	case "0", "f", "F", "FALSE", "False":
		return mkb(false, MayEither, "liberal boolean")
	case "":
		return mkb(true, MayEither, "empty boolean text")
	}
	return RefVal{Cls: MustReject, Why: "not a boolean"}
}

func refCelsius(s string) RefVal {
	if len(s) >= 2 && s[len(s)-1] == 'C' {
		body := s[:len(s)-1]
		neg := strings.HasPrefix(body, "-")
		if neg {
			body = body[1:]
		}
		if v, ok := parseDigits(body, 10); ok {
			if neg {
				v.Neg(v)
			}
			if v.Cmp(big.NewInt(-32768)) >= 0 && v.Cmp(big.NewInt(32767)) <= 0 {
				rv := reflect.New(scalarType(KCelsius)).Elem()
				rv.SetInt(v.Int64())
				return RefVal{Cls: MustAccept, HasVal: true, Val: rv}
			}
			return RefVal{Cls: MustReject, Why: "out of range"}
		}
		if strings.HasPrefix(body, "+") {
			return RefVal{Cls: MayEither, Why: "plus sign"}
		}
	}
	return RefVal{Cls: MustReject, Why: "not <int>C"}
}

func refPoint(s string) RefVal {
	parts := strings.Split(s, ",")
	if len(parts) != 2 {
		return RefVal{Cls: MustReject, Why: "not x,y"}
	}
	var xy [2]int64
	for i, p := range parts {
		r := refInt(KInt32, 10, p)
		if r.Cls != MustAccept {
			if r.Cls == MayEither {
				return RefVal{Cls: MayEither, Why: r.Why}
			}
			return RefVal{Cls: MustReject, Why: r.Why}
		}
		xy[i] = r.Val.Int()
	}
	rv := reflect.ValueOf(&Point{x: int(xy[0]), y: int(xy[1])}).Elem()
	return RefVal{Cls: MustAccept, HasVal: true, Val: rv}
}

// RefScalar classifies text for a scalar of kind k (base applies to integer kinds only).
func RefScalar(k TK, base int, s string) RefVal {
	switch {
	case k == KString || k == KVocab || k == KPicky:
		rv := reflect.New(scalarType(k)).Elem()
		rv.SetString(s)
		return RefVal{Cls: MustAccept, HasVal: true, Val: rv}
	case k == KBool:
		return refBool(s)
	case isIntKind(k):
		if base == 0 {
			base = 10
		}
		if base == BaseAuto {
			return refIntAuto(k, s)
		}
		return refInt(k, base, s)
	case k == KFloat32 || k == KFloat64:
		return refFloat(k, s)
	case k == KDuration:
		return refDuration(s)
	case k == KCelsius:
		return refCelsius(s)
	case k == KLevel:
		r := refInt(KInt32, 10, s)
		if r.HasVal {
			rv := reflect.New(scalarType(KLevel)).Elem()
			rv.SetInt(r.Val.Int())
			r.Val = rv
		}
		return r
	case k == KPoint:
		return refPoint(s)
	case k == KOnOff:
		if s == "on" || s == "off" {
			return RefVal{Cls: MustAccept, HasVal: true, Val: reflect.ValueOf(OnOff(s == "on"))}
		}
		return RefVal{Cls: MustReject, Why: "neither on nor off"}
	case k == KRes:
		if strings.Contains(s, "!") {
			return RefVal{Cls: MustReject, Why: "the type's own UnmarshalFlag refuses texts with !"}
		}
		return RefVal{Cls: MustAccept, HasVal: true, Val: reflect.ValueOf(Res(strings.ToLower(s)))}
	case k == KBag:
		return RefVal{Cls: MustAccept, HasVal: true, Val: reflect.ValueOf(Bag{items: []string{s}})}
	case k == KMode:
		return RefVal{Cls: MustAccept, HasVal: true, Val: reflect.ValueOf(ModeVal{allowed: vocabulary, v: s})}
	}
	panic("RefScalar: bad kind")
}

// RefMapEntry splits key:value at the first ':' and classifies both halves.
func RefMapEntry(ts TypeSpec, base int, s string) (key, val RefVal, cls Class) {
	i := strings.IndexByte(s, ':')
	ks, vs := s, ""
	noColon := i < 0
	if i >= 0 {
		ks, vs = s[:i], s[i+1:]
	}
	key = RefScalar(ts.MapKey, base, ks)
	val = RefScalar(ts.K, base, vs)
	cls = MustAccept
	if key.Cls == MustReject || val.Cls == MustReject {
		// ("k" without a colon and an element type for which the empty text is no value - numbers, durations -
		// is rejected under the strict reading (not a key:value pair) and under the liberal one (k with an empty value))
		cls = MustReject
		return
	}
	if key.Cls == MayEither || val.Cls == MayEither || noColon {
		cls = MayEither
	}
	return
}
