package main

import (
	"encoding/json"
	"fmt"
	"os"
	"runtime/debug"
	"sort"
	"strings"
)

// ---------------------------------------------------------------------------
// Property registry and per-case context
// ---------------------------------------------------------------------------

type Verdict int

const (
	VTrivial Verdict = iota
	VHeld
	VUnspec
	VViolated
)

type Property struct {
	ID    string
	Title string
	// Cases returns the fixed number of cases of a tier (never a time budget).
	Cases func(tier string) int64
	// Run executes case c.K. It reports through the Ctx methods.
	Run func(c *Ctx)
	// Rule describes generation and non-triviality for the evidence file.
	Rule        string
	Assumptions []string
	// MinNontrivial: a run that observed fewer distinct non-trivial cases is a broken check (exit 2).
	MinNontrivial int64
	// DeathIsViolation: a reproducible process death / hang on one case is a violation of the
	// property itself (C04, C14, C17, C19 say "never panics / returns normally").
	DeathIsViolation bool
	HangIsViolation  bool
	// DeathClass names the input class of case k (stable across seeds) for the signature of a process death.
	DeathClass func(tier string, seed int64, k int64) string
	NeedPty    bool
	// Race: the thorough tier additionally runs RaceCases cases on RaceG goroutines under -race.
	RaceCases int64
	// Setup is run once per worker before the first case.
	Setup func(w *Worker)
	// Batch is the number of cases per child process (0 = default).
	Batch int64
	// Technique / level strings for the manifest generator.
	Technique string
	LevelText string
	LevelNote string
	DesignRef string
}

var registry = map[string]*Property{}

func register(p *Property) { registry[p.ID] = p }

type Ctx struct {
	P    *Property
	W    *Worker
	Seed int64
	K    int64
	Tier string
	R    *Rand

	verdict Verdict
	cell    string
	shape   string
	sig     string
	msg     string
	reason  string
	caseFn  func() interface{}
	extra   map[string]interface{}
	cleanup []func()
}

// Defer registers a clean-up (e.g. unsetting an environment variable) that runs when the case is over.
func (c *Ctx) Defer(f func()) { c.cleanup = append(c.cleanup, f) }

// Sub returns an independent deterministic stream for this case.
func (c *Ctx) Sub(salt string) *Rand { return NewRand(c.P.ID, c.Seed, c.K, hashStr(salt)) }

// Held records that the oracle judged this (non-trivial) case and it held.
func (c *Ctx) Held(cell, shape string) {
	if c.verdict < VHeld {
		c.verdict = VHeld
	}
	if c.cell == "" {
		c.cell = cell
		c.shape = shape
	}
}

// Unspec records that the case left the domain in which the property pins behaviour.
func (c *Ctx) Unspec(reason string) {
	if c.verdict < VUnspec {
		c.verdict = VUnspec
		c.reason = reason
	}
}

// Violate records a violation. sig identifies the failing input class (used by known_findings.json).
func (c *Ctx) Violate(sig, format string, a ...interface{}) {
	if c.verdict < VViolated {
		c.verdict = VViolated
		c.sig = sig
		c.msg = fmt.Sprintf(format, a...)
		if len(c.msg) > 900 {
			c.msg = c.msg[:600] + " …[" + fmt.Sprint(len(c.msg)-800) + " bytes elided]… " + c.msg[len(c.msg)-200:]
		}
	}
}

func (c *Ctx) Violated() bool { return c.verdict == VViolated }

// Case registers a lazy renderer of the case (only evaluated for samples and violations).
func (c *Ctx) Case(f func() interface{}) { c.caseFn = f }

// Note attaches observed/expected details to a violation's replay file.
func (c *Ctx) Note(k string, v interface{}) {
	if c.extra == nil {
		c.extra = map[string]interface{}{}
	}
	c.extra[k] = v
}

// Count adds to a named observer total reported in the evidence.
func (c *Ctx) Count(name string, n int64) { c.W.out.Counters[name] += n }

// ---------------------------------------------------------------------------
// Worker output
// ---------------------------------------------------------------------------

type Sample struct {
	K    int64       `json:"k"`
	Cell string      `json:"cell"`
	Case interface{} `json:"case"`
}

type Viol struct {
	K     int64                  `json:"k"`
	Sig   string                 `json:"sig"`
	Msg   string                 `json:"msg"`
	Case  interface{}            `json:"case"`
	Extra map[string]interface{} `json:"extra,omitempty"`
}

type WorkerOut struct {
	Lo, Hi        int64
	Evaluations   int64
	Held          int64
	Unspec        int64
	Trivial       int64
	Violated      int64
	Cells         map[string]int64
	Shapes        []uint64
	Counters      map[string]int64
	UnspecReasons map[string]int64
	Samples       []Sample
	Violations    []Viol
	ViolBySig     map[string]int64
	Done          bool
	Broken        string
	// Digests: scenario key -> digest, merged by the parent; a key seen with two digests is a
	// cross-process non-determinism (C15)
	Digests map[string]string
}

type Worker struct {
	P       *Property
	Tier    string
	Seed    int64
	out     *WorkerOut
	shapes  map[uint64]struct{}
	seenCel map[string]int
	journal []byte
	Pty     *Pty
	Replay  bool
	// fd-level capture files for stdout / stderr of this process (see obs.go)
	Cap *FdCapture
}

func newWorkerOut(lo, hi int64) *WorkerOut {
	return &WorkerOut{Lo: lo, Hi: hi, Cells: map[string]int64{}, Counters: map[string]int64{},
		UnspecReasons: map[string]int64{}, ViolBySig: map[string]int64{}}
}

const maxViolPerWorker = 40
const maxSamplesPerWorker = 6

// runCase executes one case and folds its verdict into the worker aggregate.
func (w *Worker) runCase(k int64) (c *Ctx) {
	c = &Ctx{P: w.P, W: w, Seed: w.Seed, K: k, Tier: w.Tier, R: NewRand(w.P.ID, w.Seed, k, 0)}
	func() {
		defer func() {
			if r := recover(); r != nil {
				// A panic that escaped a property's own observers is a harness defect, not a verdict.
				w.out.Broken = fmt.Sprintf("harness panic in case %d: %v\n%s", k, r, debug.Stack())
			}
		}()
		defer func() {
			for i := len(c.cleanup) - 1; i >= 0; i-- {
				c.cleanup[i]()
			}
		}()
		w.P.Run(c)
	}()
	o := w.out
	o.Evaluations++
	switch c.verdict {
	case VTrivial:
		o.Trivial++
	case VHeld:
		o.Held++
		o.Cells[c.cell]++
		h := hashStr(c.cell + "\x00" + c.shape)
		if _, ok := w.shapes[h]; !ok {
			w.shapes[h] = struct{}{}
		}
		if w.seenCel[c.cell] == 0 && len(o.Samples) < maxSamplesPerWorker && c.caseFn != nil {
			o.Samples = append(o.Samples, Sample{K: k, Cell: c.cell, Case: safeRender(c.caseFn)})
		}
		w.seenCel[c.cell]++
	case VUnspec:
		o.Unspec++
		o.UnspecReasons[c.reason]++
	case VViolated:
		o.Violated++
		o.ViolBySig[c.sig]++
		if o.ViolBySig[c.sig] <= 2 && len(o.Violations) < maxViolPerWorker {
			var cs interface{}
			if c.caseFn != nil {
				cs = safeRender(c.caseFn)
			}
			o.Violations = append(o.Violations, Viol{K: k, Sig: c.sig, Msg: c.msg, Case: cs, Extra: c.extra})
		}
	}
	return c
}

func safeRender(f func() interface{}) (v interface{}) {
	defer func() {
		if r := recover(); r != nil {
			v = fmt.Sprintf("<render panic: %v>", r)
		}
	}()
	v = f()
	// make sure it is JSON-encodable; otherwise fall back to a string
	if _, err := json.Marshal(v); err != nil {
		return fmt.Sprintf("%+v", v)
	}
	return v
}

func (w *Worker) finish() {
	for h := range w.shapes {
		w.out.Shapes = append(w.out.Shapes, h)
	}
	sort.Slice(w.out.Shapes, func(i, j int) bool { return w.out.Shapes[i] < w.out.Shapes[j] })
	w.out.Done = true
}

// ---------------------------------------------------------------------------
// Known findings
// ---------------------------------------------------------------------------

type KnownFinding struct {
	Property string `json:"property"`
	Status   string `json:"status"` // "known" | "fixed"
	Commit   string `json:"commit,omitempty"`
	// Match is a prefix of the violation signature (signatures are hierarchical, ':'-separated,
	// and name one failing input class).
	Match string `json:"match"`
	What  string `json:"what"`
}

func loadKnown(path string) []KnownFinding {
	b, err := os.ReadFile(path)
	if err != nil {
		return nil
	}
	var f struct {
		Findings []KnownFinding `json:"findings"`
	}
	if err := json.Unmarshal(b, &f); err != nil {
		fmt.Fprintf(os.Stderr, "known_findings.json: %v\n", err)
		os.Exit(2)
	}
	return f.Findings
}

func matchKnown(kf []KnownFinding, prop, sig string) *KnownFinding {
	for i := range kf {
		f := &kf[i]
		if f.Property == prop && f.Status == "known" && f.Match != "" &&
			(sig == f.Match || strings.HasPrefix(sig, f.Match+":")) {
			return f
		}
	}
	return nil
}
