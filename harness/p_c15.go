package main

import (
	"bytes"
	"crypto/sha256"
	"encoding/hex"
	"fmt"
	"os"
	"path/filepath"
	"reflect"
	"sort"
	"strings"
	"time"

	flags "github.com/jessevdk/go-flags"
)

// C15: outcomes are deterministic.

var c15Kinds = []string{"help-map-default", "man-page", "ini-write-maps", "ini-same-option-in-sections", "ini-two-unknown-sections", "required-list", "command-list", "completion-list", "choice-message", "env-map-default", "help-full", "ini-callbacks-in-sections", "ini-read-then-write", "duplicate-flag-message", "write-after-documents", "write-file-error", "completion-list-large"}

func c15Decl(r *Rand, kind string) *Decl {
	cfg := &DeclCfg{
		MaxDepth: 2, MaxFan: 3, PCmds: 60, Types: []TypeSpec{{K: KString}, {K: KBool}, {K: KInt}, {K: KString, W: WSlice}, {K: KString, W: WMap, MapKey: KString}, {K: KInt, W: WMap, MapKey: KString}, {K: KString, W: WMap, MapKey: KInt}, {K: KFloat64, W: WMap, MapKey: KString}},
		OptsMin: 2, OptsMax: 5, SubGroupsMax: 1, PInline: 20, NestMax: 2, PNamespace: 30, PShortOnly: 10, PLongOnly: 30, PDefault: 20, PChoices: 15, PDesc: 90, PValueName: 20,
		PExec: 30, PByTag: 50, PSubOptional: 50, PAliases: 40, PHidden: 5, PEnv: 0, PIniName: 10, PRequired: 0,
		ParserOpts: []flags.Options{flags.HelpFlag | flags.PassDoubleDash}, NoHelpNames: true,
	}
	switch kind {
	case "required-list":
		cfg.PRequired = 70
	case "write-after-documents":
		cfg.MaxFan, cfg.MaxDepth, cfg.PCmds, cfg.PAliases = 6, 2, 100, 60
	case "command-list", "completion-list":
		cfg.MaxFan = 9
		cfg.MaxDepth = 1
		cfg.PCmds = 100
		cfg.PSubOptional = 0
	case "choice-message":
		cfg.PChoices = 80
	case "ini-callbacks-in-sections":
		cfg.Types = append(cfg.Types, TypeSpec{K: KString, W: WFunc1}, TypeSpec{K: KString, W: WFunc1}, TypeSpec{W: WFunc0})
	}
	if kind == "duplicate-flag-message" {
		cfg.OptsMin, cfg.OptsMax, cfg.PShortOnly, cfg.PLongOnly, cfg.PNamespace = 5, 8, 0, 0, 0
	}
	if kind == "completion-list-large" {
		// a large program: more option names than any fixed cap a shell integration might think of
		cfg.OptsMin, cfg.OptsMax, cfg.PShortOnly, cfg.PLongOnly, cfg.PCmds, cfg.SubGroupsMax = 70, 110, 0, 85, 0, 3
	}
	d := GenDecl(r, cfg)
	if kind == "write-after-documents" {
		// sub-commands declared in non-alphabetical order (what is listed sorted in help must stay in declaration
		// order everywhere else, whether or not help was produced before)
		for _, cm := range d.Cmds {
			for i, j := 0, len(cm.Subs)-1; i < j; i, j = i+1, j-1 {
				cm.Subs[i], cm.Subs[j] = cm.Subs[j], cm.Subs[i]
			}
		}
	}
	if kind == "duplicate-flag-message" {
		// several independent clashes in one declaration: which one is reported must not be left to chance
		var own []*Opt
		for _, o := range d.Opts {
			if o.Cmd == d.Root && o.Long != "" && o.Short != 0 && len(o.NsChain()) == 0 {
				own = append(own, o)
			}
		}
		for i := 0; i+1 < len(own); i += 2 {
			switch r.Intn(3) {
			case 0:
				own[i+1].Long = own[i].Long
			case 1:
				own[i+1].Short = own[i].Short
			default:
				own[i+1].Long, own[i+1].Short = own[i].Long, own[i].Short
			}
		}
	}
	if kind == "command-list" {
		// two aliases (of different commands) and two names at the same distance from the words the scenario uses;
		// set before the first build, so that tag-declared commands carry them as well
		if len(d.Root.Subs) >= 2 {
			d.Root.Subs[0].Aliases = append(d.Root.Subs[0].Aliases, "ins")
			d.Root.Subs[1].Aliases = append(d.Root.Subs[1].Aliases, "inx")
		}
		if len(d.Root.Subs) >= 4 {
			d.Root.Subs[2].Name, d.Root.Subs[3].Name = "c0a", "c0b"
		}
	}
	if kind == "help-full" || kind == "man-page" || kind == "write-after-documents" {
		// an alias that the program added although the declaration already had it (and two more): listed as given
		for _, cm := range d.Cmds[1:] {
			if r.Bool() {
				a := fmt.Sprintf("dup%d", cm.ID)
				cm.Aliases = append(cm.Aliases, a, a+"b", a, a+"c", a+"b")
			}
		}
	}
	if kind == "completion-list" || kind == "help-full" || kind == "required-list" {
		// names that differ only in letter case (an ordering that ignores case would leave them to chance)
		var shortOnly, longs []*Opt
		for _, o := range d.Opts {
			if o.Cmd != d.Root || o.Hidden {
				continue
			}
			if o.Long == "" && o.Short != 0 {
				shortOnly = append(shortOnly, o)
			} else if o.Long != "" && len(o.NsChain()) == 0 {
				longs = append(longs, o)
			}
		}
		used := map[rune]bool{}
		for _, o := range d.Opts {
			if o.Cmd == d.Root {
				used[o.Short] = true
			}
		}
		if len(shortOnly) >= 2 && !used['q'] && !used['Q'] {
			shortOnly[0].Short, shortOnly[1].Short = 'q', 'Q'
		} else if len(longs) >= 2 && !used['q'] && !used['Q'] {
			// make two long-named options short-only
			longs[0].Long, longs[0].Short = "", 'q'
			longs[1].Long, longs[1].Short = "", 'Q'
			longs = longs[2:]
		}
		if len(longs) >= 2 {
			longs[0].Long = "zeta-" + fmt.Sprint(longs[0].ID)
			longs[1].Long = "Zeta-" + fmt.Sprint(longs[0].ID)
		}
	}
	return d
}

// c15Populate stores several entries into every map option (what a program does before parsing).
func c15Populate(r *Rand, d *Decl) int {
	n := 0
	for _, o := range d.Opts {
		if o.T.W != WMap || !o.Val.IsValid() {
			continue
		}
		k := r.Range(3, 12)
		m := reflect.MakeMap(o.T.GoType())
		for i := 0; i < k; i++ {
			var key reflect.Value
			if o.T.MapKey == KString {
				key = reflect.ValueOf(fmt.Sprintf("key%02d", i))
			} else {
				key = reflect.ValueOf(i * 7)
			}
			var val reflect.Value
			switch o.T.K {
			case KString:
				val = reflect.ValueOf(fmt.Sprintf("v%d", i))
			case KInt:
				val = reflect.ValueOf(i)
			default:
				val = reflect.ValueOf(float64(i) / 4)
			}
			m.SetMapIndex(key, val)
		}
		o.Val.Set(m)
		n++
	}
	return n
}

type c15Eval func() (string, error)

func c15Run(c *Ctx) {
	r := c.R
	kind := c15Kinds[c.K%int64(len(c15Kinds))]
	reps := 256
	if c.W.Tier == "race" {
		reps = 16
	}
	seedD := c.Sub("decl").Uint64()
	seedP := c.Sub("pop").Uint64()
	d0 := c15Decl(&Rand{s: seedD}, kind)
	mk := func() (*Decl, *Built) {
		// a fresh parser over the same declaration model for every evaluation
		return d0, d0.Build()
	}
	_, b0 := mk()
	if kind != "env-map-default" {
		d0.CacheTypes = true
	}
	if b0.Err != nil {
		c.Violate("setup-error", "declaration rejected: %v", b0.Err)
		return
	}
	var eval c15Eval
	manDate := ""
	maps := 0
	detail := ""
	switch kind {
	case "help-map-default", "help-full":
		eval = func() (string, error) {
			d, b := mk()
			maps = c15Populate(&Rand{s: seedP}, d)
			_, err := b.P.ParseArgs([]string{"--help"})
			if fe, ok := err.(*flags.Error); ok && fe.Type == flags.ErrHelp {
				return fe.Message, nil
			}
			return fmt.Sprint(err), nil
		}
	case "man-page":
		// the page is dated by SOURCE_DATE_EPOCH - whatever its value, 0 included
		epoch := []int64{0, 1, 86399, 31536000, 1500000000, 1700000000}[r.Intn(6)]
		if c.W.Tier != "race" {
			os.Setenv("SOURCE_DATE_EPOCH", fmt.Sprint(epoch))
			c.Defer(func() { os.Setenv("SOURCE_DATE_EPOCH", "1700000000") })
			manDate = time.Unix(epoch, 0).Format("2 January 2006")
		}
		eval = func() (string, error) {
			d, b := mk()
			maps = c15Populate(&Rand{s: seedP}, d)
			b.P.ParseArgs(nil)
			var buf bytes.Buffer
			b.P.ShortDescription = "short"
			b.P.LongDescription = "long `quoted' text"
			b.P.WriteManPage(&buf)
			return buf.String(), nil
		}
	case "ini-write-maps":
		wopts := flags.IniOptions(r.Intn(8))
		eval = func() (string, error) {
			d, b := mk()
			b.P.ParseArgs(nil)
			maps = c15Populate(&Rand{s: seedP}, d)
			var buf bytes.Buffer
			flags.NewIniParser(b.P).Write(&buf, wopts)
			return buf.String(), nil
		}
	case "ini-same-option-in-sections", "ini-callbacks-in-sections":
		// the same option set in 2-4 places: the section-less preamble, [Application Options], its group's section
		var lines []string
		pr := &Rand{s: seedP}
		var cands []*Opt
		for _, o := range d0.Opts {
			if o.Cmd == d0.Root && !o.T.IsFlag() {
				cands = append(cands, o)
			}
		}
		if len(cands) == 0 {
			return
		}
		pick := cands[pr.Intn(len(cands))]
		val := func(i int) string {
			v := GenScalarTextSimple(pr, pick)
			if strings.HasPrefix(v, "\x00") {
				v = pick.Choices[0]
			}
			return v
		}
		lines = append(lines, pick.Field+" = "+val(0))
		lines = append(lines, "[Application Options]", pick.Field+" = "+val(1))
		if pick.Grp.Desc != "" {
			lines = append(lines, "["+pick.Grp.Desc+"]", pick.Field+" = "+val(2))
		}
		if pr.Bool() {
			lines = append(lines, "[application options]", pick.Field+" = "+val(3))
		}
		// plus other options (callbacks) spread over sections
		for _, o := range d0.Opts {
			if o != pick && o.Cmd == d0.Root && o.T.IsFunc() && o.T.W != WFunc0 {
				s, _ := sectionOf(o)
				lines = append(lines, "["+s+"]", o.Field+" = cb"+fmt.Sprint(o.ID))
			}
		}
		text := strings.Join(lines, "\n") + "\n"
		detail = text
		eval = func() (string, error) {
			d, b := mk()
			err := flags.NewIniParser(b.P).Parse(strings.NewReader(text))
			return fmt.Sprintf("err=%v\nsnap=%v\nlog=%v", err, sortedSnap(d.Snapshot()), b.Log.E), nil
		}
	case "ini-read-then-write":
		// one option named in several ways (and in several places) by the file that is read, then written back
		pr := &Rand{s: seedP}
		var cands []*Opt
		for _, o := range d0.Opts {
			if o.Cmd == d0.Root && !o.T.IsFunc() && !o.T.IsFlag() && o.Long != "" && len(o.Choices) == 0 && !o.Hidden && !o.NoIni {
				cands = append(cands, o)
			}
		}
		if len(cands) == 0 {
			return
		}
		var lines []string
		for i := 0; i < 2 && i < len(cands); i++ {
			o := cands[pr.Intn(len(cands))]
			names := []string{o.Field, d0.FullLong(o)}
			if o.Short != 0 {
				names = append(names, string(o.Short))
			}
			if o.IniName != "" {
				names = append(names, o.IniName)
			}
			sec, _ := sectionOf(o)
			lines = append(lines, "["+sec+"]")
			for _, nm := range names {
				lines = append(lines, nm+" = "+GenScalarTextSimple(pr, o))
			}
		}
		text := strings.Join(lines, "\n") + "\n"
		detail = text
		eval = func() (string, error) {
			d, b := mk()
			ip := flags.NewIniParser(b.P)
			err := ip.Parse(strings.NewReader(text))
			b.P.ParseArgs(nil)
			var buf bytes.Buffer
			ip.Write(&buf, flags.IniIncludeDefaults)
			return fmt.Sprintf("err=%v\n%s\n%s", err, sortedSnap(d.Snapshot()), buf.String()), nil
		}
	case "ini-two-unknown-sections":
		text := "[No Such A]\nx = 1\n[No Such B]\ny = 2\n[No Such C]\nz = 3\nzz_unknown = 1\n"
		detail = text
		eval = func() (string, error) {
			_, b := mk()
			err := flags.NewIniParser(b.P).Parse(strings.NewReader(text))
			return fmt.Sprintf("%v", err), nil
		}
	case "required-list":
		eval = func() (string, error) {
			_, b := mk()
			_, err := b.P.ParseArgs(nil)
			return fmt.Sprintf("%v", err), nil
		}
	case "command-list":
		word := []string{"", "zzz", "c0", "inz"}[r.Intn(4)]
		// (c15Decl gave two commands the aliases ins / inx and two others the names c0a / c0b: ties at equal distance)
		eval = func() (string, error) {
			_, b := mk()
			var args []string
			if word != "" {
				args = []string{word}
			}
			_, err := b.P.ParseArgs(args)
			return fmt.Sprintf("%v", err), nil
		}
	case "completion-list":
		if c.W.Tier == "race" {
			return
		}
		partial := []string{"", "-", "--", "c", "--o"}[r.Intn(5)]
		eval = func() (string, error) {
			_, b := mk()
			var got []string
			b.P.CompletionHandler = func(items []flags.Completion) {
				for _, it := range items {
					got = append(got, it.Item+"\t"+it.Description)
				}
			}
			os.Setenv("GO_FLAGS_COMPLETION", "1")
			b.P.ParseArgs([]string{partial})
			os.Unsetenv("GO_FLAGS_COMPLETION")
			return strings.Join(got, "\n"), nil
		}
	case "completion-list-large":
		if c.W.Tier == "race" {
			return
		}
		partial := []string{"-", "--", "--o", "--n"}[r.Intn(4)]
		detail = "completion of " + partial
		eval = func() (string, error) {
			_, b := mk()
			var got []string
			b.P.CompletionHandler = func(items []flags.Completion) {
				for _, it := range items {
					got = append(got, it.Item)
				}
			}
			os.Setenv("GO_FLAGS_COMPLETION", "1")
			b.P.ParseArgs([]string{partial})
			os.Unsetenv("GO_FLAGS_COMPLETION")
			return strings.Join(got, "\n"), nil
		}
	case "write-file-error":
		// a settings file that cannot be written (the directory does not exist yet / the path is a directory): the
		// same failing call reports the same error, in this process and in any other
		path := filepath.Join(os.TempDir(), fmt.Sprintf("vh-c15-no-such-dir-%d", c.K), "app.ini")
		if r.Bool() {
			path = os.TempDir()
		}
		detail = "IniParser.WriteFile(" + path + ")"
		wopts := flags.IniOptions(r.Intn(8))
		eval = func() (string, error) {
			_, b := mk()
			b.P.ParseArgs(nil)
			err := flags.NewIniParser(b.P).WriteFile(path, wopts)
			if err == nil {
				os.Remove(path)
				return "", fmt.Errorf("unexpectedly written")
			}
			return fmt.Sprintf("%T %v", err, err), nil
		}
	case "write-after-documents":
		rep := 0
		wopts := flags.IniOptions(flags.IniIncludeDefaults)
		eval = func() (string, error) {
			_, b := mk()
			rep++
			if rep%2 == 0 {
				// documents were produced earlier in half of the evaluations
				var sink bytes.Buffer
				b.P.WriteHelp(&sink)
				b.P.WriteManPage(&sink)
			}
			// (every evaluation parses the same failing vector: defaults are applied, a command diagnosis is made)
			b.P.ParseArgs([]string{"zz-no-such-command"})
			var buf bytes.Buffer
			flags.NewIniParser(b.P).Write(&buf, wopts)
			out := buf.String() + "\ncommands:"
			var walk func(cs []*flags.Command)
			walk = func(cs []*flags.Command) {
				for _, fc := range cs {
					out += " " + fc.Name
					walk(fc.Commands())
				}
			}
			walk(b.P.Commands())
			detail = "INI output and Commands() order with and without earlier help/man/diagnosis"
			return out, nil
		}
	case "duplicate-flag-message":
		eval = func() (string, error) {
			_, b := mk()
			_, err := b.P.ParseArgs(nil)
			if fe, ok := err.(*flags.Error); !ok || fe.Type != flags.ErrDuplicatedFlag {
				return "", nil // fewer than two options to clash with: nothing to compare
			}
			detail = "duplicated-flag error"
			return fmt.Sprintf("%v", err), nil
		}
	case "choice-message":
		var co *Opt
		for _, o := range d0.Opts {
			if len(o.Choices) > 1 && o.Cmd == d0.Root && o.Long != "" && d0.ScopeOf(d0.Root).Long[d0.FullLong(o)] == o {
				co = o
			}
		}
		if co == nil {
			return
		}
		arg := "--" + d0.FullLong(co) + "=zz-not-a-choice"
		eval = func() (string, error) {
			_, b := mk()
			_, err := b.P.ParseArgs([]string{arg})
			return fmt.Sprintf("%v", err), nil
		}
	case "env-map-default":
		if c.W.Tier == "race" {
			return
		}
		var mo *Opt
		for _, o := range d0.Opts {
			if o.T.W == WMap && o.T.MapKey == KString && o.T.K == KString && o.Cmd == d0.Root {
				mo = o
			}
		}
		if mo == nil {
			return
		}
		key := fmt.Sprintf("VH_C15_%d", c.K)
		eval = func() (string, error) {
			d, b := mk()
			for _, o := range d.Opts {
				if o.ID == mo.ID {
					// env tags are read at scan time; rebuild with the tag present
					o.Env, o.EnvDelim = key, ","
				}
			}
			b = d.Build()
			os.Setenv(key, "a:1,b:2,c:3,d:4,a:5,e:6,f:7,g:8,h:9,i:10")
			defer os.Unsetenv(key)
			_, err := b.P.ParseArgs([]string{"--help"})
			msg := ""
			if fe, ok := err.(*flags.Error); ok {
				msg = fe.Message
			}
			return fmt.Sprintf("%v\n%s", sortedSnap(d.Snapshot()), msg), nil
		}
	}
	c.Case(func() interface{} {
		return map[string]interface{}{"scenario": kind, "declaration": d0.Describe(), "input": detail, "repetitions": reps}
	})
	digests := map[string]int{}
	var first, other string
	canary := map[string]bool{}
	cm := map[int]int{}
	for i := 0; i < 9; i++ {
		cm[i] = i
	}
	for i := 0; i < reps; i++ {
		var out string
		pi := safely(func() { out, _ = eval() })
		if pi != nil {
			c.Violate("panic:"+kind+":"+panicSite(pi.Stack), "panic: %s", pi.Value)
			return
		}
		h := sha256.Sum256([]byte(out))
		hs := hex.EncodeToString(h[:8])
		if digests[hs] == 0 {
			if first == "" {
				first = out
			} else if other == "" {
				other = out
			}
		}
		digests[hs]++
		// canary: shows that the runtime really varied map iteration order during this run
		ord := ""
		for k := range cm {
			ord += fmt.Sprint(k)
		}
		canary[ord] = true
	}
	if manDate != "" && !strings.Contains(strings.SplitN(first, "\n", 2)[0], "\""+manDate+"\"") {
		c.Violate("man-page:date", "SOURCE_DATE_EPOCH denotes %q, the title line of the man page is %q", manDate, strings.SplitN(first, "\n", 2)[0])
		return
	}
	if kind == "duplicate-flag-message" && first == "" {
		return // no clash could be built into this declaration
	}
	c.Count("evaluations", int64(reps))
	c.Count("canary_orders_seen_max", 0)
	if int64(len(canary)) > c.W.out.Counters["canary_orders_seen_max"] {
		c.W.out.Counters["canary_orders_seen_max"] = int64(len(canary))
	}
	if len(digests) > 1 {
		c.Violate("nondeterministic:"+kind, "%d distinct outputs in %d evaluations of the same scenario; first difference: %s", len(digests), reps, firstDiff(first, other))
		c.Note("output_a", clip(first, 3000))
		c.Note("output_b", clip(other, 3000))
		return
	}
	// cross-process comparison: the parent merges these digests by key
	for hs := range digests {
		if c.W.out.Digests == nil {
			c.W.out.Digests = map[string]string{}
		}
		c.W.out.Digests[fmt.Sprintf("%s/%s/%d", c.W.Tier, kind, c.K%c15Scenarios(c.W.Tier))] = hs
	}
	c.Held(kind, fmt.Sprintf("maps=%d opts=%d cmds=%d len=%d", maps, len(d0.Opts), len(d0.Cmds), len(first)/100))
}

func firstDiff(a, b string) string {
	i := 0
	for i < len(a) && i < len(b) && a[i] == b[i] {
		i++
	}
	lo := i - 40
	if lo < 0 {
		lo = 0
	}
	ha, hb := i+60, i+60
	if ha > len(a) {
		ha = len(a)
	}
	if hb > len(b) {
		hb = len(b)
	}
	return fmt.Sprintf("at byte %d: %q vs %q", i, a[lo:ha], b[lo:hb])
}

func sortedSnap(m map[string]string) string {
	var ks []string
	for k := range m {
		ks = append(ks, k)
	}
	sort.Strings(ks)
	var sb strings.Builder
	for _, k := range ks {
		sb.WriteString(k + "=" + m[k] + ";")
	}
	return sb.String()
}

// c15Scenarios: number of distinct scenarios of a tier; cases beyond it repeat scenarios in other processes.
func c15Scenarios(tier string) int64 {
	switch tier {
	case "thorough":
		return 6000
	case "race":
		return 3000
	}
	return 480
}

func init() {
	register(&Property{
		ID:    "C15",
		Title: "Outcomes are deterministic",
		Cases: func(tier string) int64 {
			switch tier {
			case "thorough":
				return 6000 * 4 // every scenario in 4 different processes
			case "race":
				return 3000
			}
			return 480 * 2 // every scenario in 2 different processes
		},
		Batch: 30,
		Run: func(c *Ctx) {
			// scenario identity is k mod #scenarios: re-seed the case stream accordingly
			sk := c.K % c15Scenarios(c.W.Tier)
			c.R = NewRand("C15", c.Seed, sk, 0)
			k := c.K
			c.K = sk
			c15Run(c)
			c.K = k
		},
		Setup: func(w *Worker) {
			os.Setenv("SOURCE_DATE_EPOCH", "1700000000")
		},
		MinNontrivial: 100,
		RaceCases:     3000,
		Rule: "scenario s = k mod S (S = 480 quick, 6000 thorough), kind = s mod 17: help with pre-populated map options (3-12 keys) as defaults, full help, man page (SOURCE_DATE_EPOCH fixed), INI output of maps under random write options, INI input setting one option in 2-4 sections (preamble, [Application Options], the group's section, a case variant) plus callbacks spread over sections, three unknown sections at once, required-flag list, command list / unknown command, completion list, invalid-choice message, map default from an environment variable with 10 entries, the duplicated-flag error of a declaration with several independent name clashes, INI output and Commands() order with and without an earlier help / man page / command diagnosis on the same parser (sub-commands declared in non-alphabetical order), the error of IniParser.WriteFile to a path that cannot be written, the completion list of a declaration with 70-110 options. Each scenario is evaluated 256 times on fresh parsers in one process (SHA-256 of every observable: bytes written, Error.Message, completion items, value snapshot, call log) and again in 2 (quick) / 4 (thorough) different processes whose digests the parent compares. " +
			"A canary map ranged once per evaluation counts the distinct iteration orders the runtime actually produced. distinct = (kind, #maps, #options, #commands, output size).",
		Assumptions: []string{"only iteration-order non-determinism that the Go runtime actually exhibits is reachable; the library has no goroutines, so there is no scheduler to explore"},
		Technique:   "runtime repetition monitor: digest equality of all observables across 256 in-process evaluations and across separate processes, with a map-order canary; race detector on 16 concurrent goroutines (thorough); multi-step histories on one parser with direct oracles",
		LevelText:   "Exploration by repetition: every scenario puts >= 2 entries into the maps the library ranges over and is re-evaluated 256x in-process and 2-4x across processes; with the measured ~15% minority-order probability a dependence on map order escapes with probability < 10^-18 per scenario.",
		LevelNote:   "Trusted: SHA-256 digest comparison; the canary's report that iteration order did vary.",
		DesignRef:   "§4 C15",
	})
}
