package main

import (
	"bytes"
	"fmt"
	"regexp"
	"strconv"
	"strings"

	flags "github.com/jessevdk/go-flags"
)

// C16: help and man page show exactly the visible interface.

func c16Cfg() *DeclCfg {
	types := []TypeSpec{{K: KString}, {K: KString}, {K: KBool}, {K: KInt}, {K: KString, W: WSlice}, {K: KFloat64}, {K: KString, W: WMap, MapKey: KString}, {K: KDuration}, {K: KBool, W: WSlice}, {K: KInt64}, {K: KOnOff}, {K: KOnOff, W: WSlice}}
	return &DeclCfg{
		MaxDepth: 3, MaxFan: 5, PCmds: 65, Types: types, OptsMin: 1, OptsMax: 4, SubGroupsMax: 2, PInline: 20, NestMax: 2,
		PNamespace: 40, PEnvNS: 40, PShortOnly: 12, PLongOnly: 35, PDefault: 45, PDefaultMask: 45, PProgAttr: 30, PEnv: 40, PChoices: 20, PHidden: 25, PHiddenGrp: 20, PHiddenCmd: 25,
		PDesc: 80, PValueName: 40, PPos: 40, PosMax: 3, PRest: 40, PByTag: 50, PExec: 25, PSubOptional: 50, PAliases: 50, PRequired: 10,
		ParserOpts: []flags.Options{flags.HelpFlag, flags.HelpFlag | flags.PassDoubleDash, 0}, NoHelpNames: true, NsDelims: []string{"", ".", "-"}, EnvDelims: []string{"", "_", "__"},
		PosTypes: []TypeSpec{{K: KString}},
	}
}

func visibleInHelp(o *Opt) bool {
	if o.Hidden {
		return false
	}
	for g := o.Grp; g != nil; g = g.Parent {
		if g.Hidden {
			return false
		}
	}
	return true
}

// groupHiddenAbove: some enclosing group (not the option's own) is hidden.
func anyHiddenGroup(o *Opt) bool {
	for g := o.Grp; g != nil; g = g.Parent {
		if g.Hidden {
			return true
		}
	}
	return false
}

var rowStart = regexp.MustCompile(`^ {2,10}(-|--)\S`)

// helpBlock returns the lines of the row of option o (row line + continuation lines), or nil.
func helpBlock(d *Decl, lines []string, o *Opt) []string {
	// the rows of a command's options follow its "[<name> command options]" heading (the root's come first)
	lo, hi := 0, len(lines)
	if o.Cmd.Parent != nil {
		lo = len(lines)
		for i, ln := range lines {
			if ln == "["+o.Cmd.Name+" command options]" {
				lo = i + 1
				break
			}
		}
	}
	for i := lo; i < len(lines); i++ {
		if strings.HasSuffix(lines[i], " command options]") || strings.HasPrefix(lines[i], "Available commands:") {
			hi = i
			break
		}
	}
	idx := -1
	for i := lo; i < hi; i++ {
		ln := lines[i]
		if !rowStart.MatchString(ln) {
			continue
		}
		t := strings.TrimLeft(ln, " ")
		if o.Long != "" {
			name := "--" + d.FullLong(o)
			j := strings.Index(t, name)
			if j >= 0 {
				rest := t[j+len(name):]
				if rest == "" || rest[0] == '=' || rest[0] == ' ' {
					idx = i
					break
				}
			}
		} else {
			name := "-" + string(o.Short)
			if strings.HasPrefix(t, name) {
				rest := t[len(name):]
				if rest == "" || rest[0] == '=' || rest[0] == ' ' {
					idx = i
					break
				}
			}
		}
	}
	if idx < 0 {
		return nil
	}
	end := idx + 1
	for end < len(lines) {
		ln := lines[end]
		if strings.TrimSpace(ln) == "" || rowStart.MatchString(ln) || !strings.HasPrefix(ln, "            ") {
			break
		}
		end++
	}
	return lines[idx:end]
}

// containsToken: tok occurs in s not followed by a digit and not preceded by a letter or digit
// (so that o056 is not found inside o0562, nor VH_E6 inside VH_E60).
func containsToken(s, tok string) bool {
	from := 0
	for {
		i := strings.Index(s[from:], tok)
		if i < 0 {
			return false
		}
		i += from
		end := i + len(tok)
		okAfter := end >= len(s) || !(s[end] >= '0' && s[end] <= '9')
		okBefore := i == 0 || !((s[i-1] >= '0' && s[i-1] <= '9') || (s[i-1] >= 'a' && s[i-1] <= 'z') || (s[i-1] >= 'A' && s[i-1] <= 'Z'))
		if okAfter && okBefore {
			return true
		}
		from = i + 1
	}
}

type c16Secret struct {
	tok  string
	what string
}

func c16Run(c *Ctx) {
	if c.Sub("api?").Intn(16) == 3 {
		// options registered through the public AddOption API in help and man page
		apiMiniDoc(c)
		return
	}
	r := c.R
	d := GenDecl(c.Sub("d"), c16Cfg())
	// a visible group nested inside a hidden group is not ranked by the statement: hide the whole subtree
	var hideTree func(g *Grp, hidden bool)
	hideTree = func(g *Grp, hidden bool) {
		if hidden {
			g.Hidden = true
		}
		for _, s := range g.Subs {
			hideTree(s, g.Hidden)
		}
	}
	for _, cm := range d.Cmds {
		hideTree(cm.G, false)
	}
	// unique, recognisable defaults for masked options; distinctive numbers for typed ones
	var secrets []c16Secret
	for _, o := range d.Opts {
		if o.T.IsFlag() || o.T.IsFunc() {
			o.DefaultMask = ""
			continue
		}
		if o.DefaultMask == "" && o.T.K == KString && o.T.W == WScalar && len(o.Choices) == 0 && r.Chance(1, 12) {
			// a real default that is spelled like the "show nothing" mask: it is a default, not a mask
			o.Defaults = []string{"-"}
		}
		if o.DefaultMask != "" {
			switch {
			case o.T.K == KString && o.T.W != WMap && len(o.Choices) == 0:
				o.Defaults = []string{fmt.Sprintf("secret%03dz", o.ID)}
				secrets = append(secrets, c16Secret{o.Defaults[0], "real value of the masked default of " + o.Field})
			case (o.T.K == KInt || o.T.K == KInt64) && o.T.W == WScalar && len(o.Choices) == 0 && o.Base == 0:
				o.Defaults = []string{strconv.Itoa(7700000 + o.ID)}
				secrets = append(secrets, c16Secret{o.Defaults[0], "real value of the masked default of " + o.Field})
			default:
				o.DefaultMask = ""
			}
		}
	}
	b := d.Build()
	if b.Err != nil {
		c.Violate("setup-error", "generated declaration rejected: %v", b.Err)
		c.Case(func() interface{} { return d.Describe() })
		return
	}
	gen := []string{"help", "help", "man"}[c.K%3]
	histLabel := ""
	reparsed := false // the program parsed again after it changed the model (defaults shown are those of the last parse)
	if inHistTail(c, 15000, 500000) && d.resolveLive(b) == "" {
		// documents were generated once already; then the program hides one command and shows another (or flips the
		// hidden mark of an option): the next document follows the model as it is now
		if pi := safely(func() {
			var sink bytes.Buffer
			b.P.WriteHelp(&sink)
			b.P.WriteManPage(&sink)
			b.P.ParseArgs([]string{"zz-no-such-command-or-word"})
		}); pi != nil {
			c.Violate("panic:first-use", "first help/man generation panicked: %s", pi.Value)
			return
		}
		var parents []*Cmd
		for _, cm := range d.Cmds {
			nv, nh := 0, 0
			for _, s := range cm.Subs {
				if s.Hidden {
					nh++
				} else {
					nv++
				}
			}
			if nv > 0 && nh > 0 {
				parents = append(parents, cm)
			}
		}
		if len(parents) > 0 && r.Chance(2, 3) {
			pc := parents[r.Intn(len(parents))]
			var vis, hid []*Cmd
			for _, s := range pc.Subs {
				if s.Hidden {
					hid = append(hid, s)
				} else {
					vis = append(vis, s)
				}
			}
			v, h := vis[r.Intn(len(vis))], hid[r.Intn(len(hid))]
			if v.FC != nil && h.FC != nil {
				v.Hidden, h.Hidden = true, false
				v.FC.Hidden, h.FC.Hidden = true, false
				histLabel = "hidden-swap-of-commands"
			}
		} else if r.Bool() {
			var os []*Opt
			for _, o := range d.Opts {
				if o.FO != nil && !o.Prog {
					os = append(os, o)
				}
			}
			if len(os) > 0 {
				o := os[r.Intn(len(os))]
				o.Hidden = !o.Hidden
				o.FO.Hidden = o.Hidden
				histLabel = "hidden-flip-of-option"
			}
		} else {
			// Option.Default is a public field the parser re-reads on every parse: a program that adjusts a default
			// after a first (lenient) parse and parses again documents the default that is applied now
			var os []*Opt
			for _, o := range d.Opts {
				if o.FO != nil && !o.Prog && len(o.Defaults) > 0 && o.DefaultMask == "" && !o.T.IsFlag() && !o.T.IsFunc() && !o.Hidden {
					os = append(os, o)
				}
			}
			if len(os) > 0 {
				o := os[r.Intn(len(os))]
				nv := fmt.Sprintf("%s", GenScalarTextSimple(r, o))
				if len(o.Choices) > 0 {
					nv = o.Choices[r.Intn(len(o.Choices))]
				}
				o.Defaults = []string{nv}
				o.FO.Default = []string{nv}
				histLabel = "default-edited"
				reparsed = true
			}
		}
	}
	// an active chain of visible commands
	var chain []*Cmd
	cur := d.Root
	for len(cur.Subs) > 0 && r.Chance(3, 4) {
		var vis []*Cmd
		for _, s := range cur.Subs {
			if !s.Hidden {
				vis = append(vis, s)
			}
		}
		if len(vis) == 0 {
			break
		}
		cur = vis[r.Intn(len(vis))]
		chain = append(chain, cur)
	}
	var out string
	routeA := false
	var pi *PanicInfo
	if gen == "man" {
		var buf bytes.Buffer
		pi = safely(func() {
			b.P.ParseArgs(nil) // defaults are part of the model; a program calls this before generating docs
			b.P.ShortDescription = "shortdesc"
			b.P.LongDescription = "longdesc"
			b.P.WriteManPage(&buf)
		})
		out = buf.String()
	} else {
		routeA = d.Options&flags.HelpFlag != 0 && r.Bool() && histLabel == ""
		if d.Root.Pos != nil && len(chain) > 0 {
			routeA = false
		}
		for i, cm := range chain {
			if cm.Pos != nil && i < len(chain)-1 {
				routeA = false
			}
		}
		var buf bytes.Buffer
		pi = safely(func() {
			if routeA {
				var words []string
				for _, cm := range chain {
					words = append(words, cm.Name)
				}
				_, err := b.P.ParseArgs(append(words, "--help"))
				if fe, ok := err.(*flags.Error); ok && fe.Type == flags.ErrHelp {
					buf.WriteString(fe.Message)
				} else {
					buf.WriteString(fmt.Sprintf("<<no ErrHelp: %v>>", err))
				}
				return
			}
			if reparsed {
				b.P.ParseArgs(nil)
			}
			fc := b.P.Command
			for _, cm := range chain {
				fc.Active = cm.FC
				fc = cm.FC
			}
			b.P.WriteHelp(&buf)
		})
		out = buf.String()
	}
	c.Count("documents_generated", 1)
	c.Case(func() interface{} {
		var cn []string
		for _, cm := range chain {
			cn = append(cn, cm.Name)
		}
		return map[string]interface{}{"declaration": d.Describe(), "generator": gen, "active_chain": cn, "via_parse": routeA}
	})
	if pi != nil {
		c.Violate("panic:"+gen+":"+panicSite(pi.Stack), "%s generation panicked: %s", gen, pi.Value)
		return
	}
	if strings.HasPrefix(out, "<<no ErrHelp") {
		c.Violate("help-request-not-answered", "%s", out)
		return
	}
	c.Note("output", clip(out, 5000))
	// ---- hidden things never appear -------------------------------------------------------------
	hiddenCmdAbove := func(cm *Cmd) bool {
		for x := cm; x != nil; x = x.Parent {
			if x.Hidden {
				return true
			}
		}
		return false
	}
	for _, s := range secrets {
		if containsToken(out, s.tok) { // (as a token: another option's random number may contain the digits)
			c.Violate("leak:"+gen+":masked-default", "%s (%q) appears in the %s output", s.what, s.tok, gen)
			return
		}
	}
	for _, o := range d.Opts {
		if visibleInHelp(o) && !hiddenCmdAbove(o.Cmd) {
			continue
		}
		what := "hidden option"
		if !o.Hidden {
			what = "option of a hidden group/command"
		}
		var toks []string
		if o.Long != "" {
			toks = append(toks, fmt.Sprintf("o%03d", o.ID))
		}
		if o.Desc != "" {
			toks = append(toks, fmt.Sprintf("d%03d", o.ID))
		}
		if o.ValueName != "" {
			toks = append(toks, o.ValueName)
		}
		if o.Env != "" {
			toks = append(toks, o.Env)
		}
		for _, t := range toks {
			if containsToken(out, t) {
				kind := "hidden-option"
				if !o.Hidden {
					kind = "hidden-container"
				}
				c.Violate("leak:"+gen+":"+kind, "%s %s: token %q appears in the %s output", what, o.Field, t, gen)
				return
			}
		}
	}
	for _, g := range d.Grps {
		if g.Hidden && g.Desc != "" && containsToken(out, g.Desc) {
			c.Violate("leak:"+gen+":hidden-group-heading", "hidden group %q appears in the %s output", g.Desc, gen)
			return
		}
	}
	for _, cm := range d.Cmds[1:] {
		if !hiddenCmdAbove(cm) {
			continue
		}
		toks := append([]string{cm.Name}, cm.Aliases...)
		if cm.Desc != "" {
			toks = append(toks, fmt.Sprintf("cd%03d", cm.ID))
		}
		for _, t := range toks {
			if containsToken(out, t) {
				c.Violate("leak:"+gen+":hidden-command", "hidden command %s: token %q appears in the %s output", cm.Name, t, gen)
				return
			}
		}
	}
	// ---- visible things are all there ---------------------------------------------------------
	nrows := 0
	if gen == "man" {
		for _, o := range d.Opts {
			if !visibleInHelp(o) || hiddenCmdAbove(o.Cmd) {
				continue
			}
			nrows++
			var toks []string
			if o.Short != 0 {
				toks = append(toks, "\\fB\\-"+string(o.Short)+"\\fR")
			}
			if o.Long != "" {
				toks = append(toks, "\\fB\\-\\-"+d.FullLong(o)+"\\fR")
			}
			if o.ValueName != "" {
				toks = append(toks, "\\fI"+o.ValueName)
			}
			if o.Desc != "" {
				toks = append(toks, o.Desc)
			}
			for _, t := range toks {
				if !strings.Contains(out, t) {
					c.Violate("missing:man:option", "visible option %s (%s): %q is not in the man page", o.Field, d.OptString(o), t)
					return
				}
			}
			if len(o.Defaults) > 0 && o.DefaultMask == "" {
				var q []string
				for _, dv := range o.Defaults {
					q = append(q, strconv.Quote(dv))
				}
				want := strings.ReplaceAll(strings.Join(q, ", "), "\\", "\\\\")
				if !strings.Contains(out, want) {
					c.Violate("missing:man:default", "visible option %s: default %q is not in the man page", o.Field, want)
					return
				}
			}
			if o.Env != "" && len(o.Defaults) == 0 && o.DefaultMask == "" {
				// without a default the man page names the environment variable - under its full, namespaced name
				if want := "\\fI$" + d.FullEnv(o) + "\\fR"; !strings.Contains(out, want) {
					c.Violate("missing:man:environment-variable", "visible option %s: %q is not in the man page", o.Field, want)
					return
				}
			}
		}
		for _, cm := range d.Cmds[1:] {
			if hiddenCmdAbove(cm) {
				continue
			}
			if !strings.Contains(out, cm.Name) {
				c.Violate("missing:man:command", "visible command %q is not in the man page", cm.Name)
				return
			}
			for _, a := range cm.Aliases {
				if !strings.Contains(out, a) {
					c.Violate("missing:man:alias", "alias %q of visible command %q is not in the man page", a, cm.Name)
					return
				}
			}
			if cm.Desc != "" && !strings.Contains(out, cm.Desc) {
				c.Violate("missing:man:command-description", "description of visible command %q is not in the man page", cm.Name)
				return
			}
		}
		cell := "man"
		if histLabel != "" {
			cell += "/after-" + histLabel
		}
		c.Held(cell, fmt.Sprintf("rows=%d cmds=%d", minInt(nrows, 30), minInt(len(d.Cmds), 20)))
		return
	}
	lines := strings.Split(out, "\n")
	active := append([]*Cmd{d.Root}, chain...)
	for _, cm := range active {
		for _, o := range cm.OwnOpts() {
			if !visibleInHelp(o) {
				continue
			}
			nrows++
			blk := helpBlock(d, lines, o)
			if blk == nil {
				c.Violate("missing:help:option-row", "visible option %s (%s) of command %q has no row in the help text", o.Field, d.OptString(o), cm.Name)
				return
			}
			text := strings.Join(blk, "\n")
			flat := strings.Join(strings.Fields(text), " ")
			need := map[string]string{}
			if o.Short != 0 {
				need["short name"] = "-" + string(o.Short)
			}
			if o.Long != "" {
				need["long name"] = "--" + d.FullLong(o)
			}
			if !o.T.IsFlag() {
				if o.ValueName != "" {
					need["value name"] = "=" + o.ValueName
				}
				if len(o.Choices) > 0 {
					need["choices"] = "[" + strings.Join(o.Choices, "|") + "]"
				}
			}
			if o.Desc != "" {
				need["description"] = o.Desc
				if o.DefaultMask != "" {
					if o.DefaultMask != "-" {
						need["default mask"] = "(default: " + o.DefaultMask + ")"
					}
				} else if len(o.Defaults) > 0 && (routeA || reparsed) && !o.T.IsFlag() {
					allPlain := true
					for _, dv := range o.Defaults {
						if !isPrintRef(dv) || !utf8ValidPrintable(dv) {
							allPlain = false
						}
					}
					if allPlain && strings.Join(o.Defaults, ", ") != "" {
						need["default"] = strings.Join(strings.Fields("(default: "+strings.Join(o.Defaults, ", ")+")"), " ")
					}
				}
				if o.Env != "" {
					need["environment variable"] = "[$" + d.FullEnv(o) + "]"
				}
			}
			for what, tok := range need {
				hay := text
				if what == "default" || what == "description" || what == "default mask" {
					hay = flat
					tok = strings.Join(strings.Fields(tok), " ")
				}
				if !strings.Contains(hay, tok) {
					c.Violate("missing:help:"+strings.ReplaceAll(what, " ", "-"), "row of visible option %s (%s) lacks its %s %q; row: %q", o.Field, d.OptString(o), what, tok, clip(text, 400))
					return
				}
			}
			if o.DefaultMask != "" && o.Desc != "" && strings.Contains(flat, "(default: "+strings.Join(o.Defaults, ", ")+")") {
				c.Violate("leak:help:masked-default", "masked default shown")
				return
			}
		}
		if cm.Pos != nil {
			for _, a := range cm.Pos.Args {
				if a.Desc == "" {
					continue
				}
				found := 0
				for _, ln := range lines {
					if strings.HasPrefix(strings.TrimLeft(ln, " "), a.DisplayName()+":") && strings.Contains(ln, strings.Fields(a.Desc)[0]) {
						found++
					}
				}
				if found == 0 {
					c.Violate("missing:help:positional", "described positional %q of command %q has no row", a.DisplayName(), cm.Name)
					return
				}
				if found > 1 {
					// (names carry unique ids: a second row means the argument is shown under another command as well)
					c.Violate("extra:help:positional-row", "described positional %q of command %q is listed %d times", a.DisplayName(), cm.Name, found)
					return
				}
			}
		}
	}
	// sub-commands of the innermost active command
	inner := active[len(active)-1]
	nvis := 0
	for _, sc := range inner.Subs {
		if sc.Hidden {
			continue
		}
		nvis++
		found := false
		inAvail := false
		for _, ln := range lines {
			if strings.HasPrefix(ln, "Available commands:") {
				inAvail = true
				continue
			}
			if !inAvail {
				continue
			}
			f := strings.Fields(ln)
			if len(f) > 0 && f[0] == sc.Name {
				found = true
				if sc.Desc != "" {
					if !strings.Contains(ln, sc.Desc) {
						c.Violate("missing:help:command-description", "command %q listed without its description", sc.Name)
						return
					}
					if len(sc.Aliases) > 0 && !strings.Contains(ln, "(aliases: "+strings.Join(sc.Aliases, ", ")+")") {
						c.Violate("missing:help:aliases", "command %q listed without its aliases %q: %q", sc.Name, sc.Aliases, ln)
						return
					}
				}
			}
		}
		if !found {
			c.Violate("missing:help:command", "visible sub-command %q of %q is not listed under 'Available commands'", sc.Name, inner.Name)
			return
		}
	}
	// usage line: visible commands only (<= 3 listed by name)
	if nvis > 0 && nvis <= 3 && len(lines) > 1 {
		for _, sc := range inner.Subs {
			if !sc.Hidden && !strings.Contains(lines[1], sc.Name) {
				c.Violate("missing:help:usage-command", "usage line %q does not name visible sub-command %q", lines[1], sc.Name)
				return
			}
		}
	}
	if nrows == 0 && nvis == 0 {
		return
	}
	hcell := fmt.Sprintf("help/chain%d/route%v", len(chain), routeA)
	if histLabel != "" {
		hcell += "/after-" + histLabel
	}
	c.Held(hcell, fmt.Sprintf("rows=%d subs=%d", minInt(nrows, 30), nvis))
}

func init() {
	register(&Property{
		ID:    "C16",
		Title: "Help and man page show exactly the visible interface",
		Cases: func(tier string) int64 {
			switch tier {
			case "thorough":
				return 500000 + 40000 // + history cases
			case "race":
				return 0
			}
			return 15000 + 1500 // + history cases
		},
		Run:           c16Run,
		MinNontrivial: 300,
		NeedPty:       true,
		Setup: func(w *Worker) {
			if w.Pty != nil {
				w.Pty.SetWidth(240) // wide terminal: C17's wrapping concerns do not leak in
			}
		},
		Rule: "1 case in 16: a parser built through the API only (options registered with AddOption carrying Description, Hidden, Default, DefaultMask; parser / namespaced group / command homes): help (before any parse, with and without Active) and man page show every visible one with description and default or mask, no hidden one and no masked default. case k: a declaration mixing hidden/visible options (25%), groups (20%, nested) and commands (25%) to depth 3, options without short name in nested groups of sub-commands, default masks (incl. '-') whose real defaults are unique tokens, env keys under nested env-namespaces with 3 delimiters, choices, value names, described positionals, 1-5 sub-commands (both usage-line forms); generator = {help, help, man}[k mod 3]; a random active chain of visible commands selected by really parsing '<words> --help' (ErrHelp message) or by setting Active and calling WriteHelp. " +
			"Oracle over unique-id tokens: every visible option along the chain has a row with its -s, --ns.long, =VALUE, [c1|c2], description, (default: ...) or mask and [$ENVKEY]; every described positional and every visible sub-command of the innermost command (aliases beside its description) is listed; tokens of hidden options/groups/commands and the real value of a masked default occur nowhere; the man page obeys the same visibility rule over the whole tree. distinct = (generator, chain length, route, #rows, #sub-commands).",
		Assumptions: []string{"'the man page does the same' is read as the visibility-and-completeness claim for names, value name, description, default and aliases (the man format has no slot for choices)", "rows of a visible group nested in a hidden group are not required (nor forbidden); chains through hidden commands are not generated except in the history cases", "short names of hidden options cannot be checked for absence (a single rune is not a unique token)"},
		Technique:   "runtime presence/absence monitor over unique-id tokens in the generated help text and man page; multi-step histories on one parser with direct oracles",
		LevelText:   "Exploration over declarations x chains x generators with unique tokens making presence and absence decidable without parsing prose.",
		LevelNote:   "Trusted: the visibility model (a transcription of the statement) and the row extraction.",
		DesignRef:   "§4 C16",
	})
}
