package main

import (
	"fmt"
	"math"
	"os"
)

// selftest checks the reference functions against hand-computed values so that an oracle bug shows up
// as a broken setup, not as a VIOLATION.
func selftest() int {
	bad := 0
	fail := func(f string, a ...interface{}) {
		bad++
		fmt.Fprintf(os.Stderr, "selftest: "+f+"\n", a...)
	}
	lev := []struct {
		a, b string
		d    int
	}{{"", "", 0}, {"a", "", 1}, {"", "abc", 3}, {"x", "abc", 3}, {"é", "e", 1}, {"kitten", "sitting", 3}, {"flaw", "lawn", 2}, {"abc", "abc", 0}, {"ab", "ba", 2}, {"éé", "é", 1}}
	for _, t := range lev {
		if d := refLevenshtein(t.a, t.b); d != t.d {
			fail("lev(%q,%q)=%d want %d", t.a, t.b, d, t.d)
		}
		if refLevenshtein(t.a, t.b) != refLevenshtein(t.b, t.a) {
			fail("lev not symmetric on %q,%q", t.a, t.b)
		}
	}
	ints := []struct {
		k    TK
		base int
		s    string
		cls  Class
		v    int64
	}{
		{KInt8, 10, "127", MustAccept, 127}, {KInt8, 10, "128", MustReject, 0}, {KInt8, 10, "-128", MustAccept, -128}, {KInt8, 10, "-129", MustReject, 0},
		{KUint8, 10, "255", MustAccept, 255}, {KUint8, 10, "256", MustReject, 0}, {KUint8, 10, "-1", MustReject, 0}, {KUint8, 10, "-0", MayEither, 0},
		{KInt, 16, "ff", MustAccept, 255}, {KInt, 16, "FF", MustAccept, 255}, {KInt, 16, "0xff", MayEither, 255}, {KInt, 2, "102", MustReject, 0},
		{KInt64, 10, "9223372036854775807", MustAccept, math.MaxInt64}, {KInt64, 10, "9223372036854775808", MustReject, 0},
		{KInt, 10, "+5", MayEither, 5}, {KInt, 10, " 5", MustReject, 0}, {KInt, 10, "", MustReject, 0}, {KInt, 10, "5 ", MustReject, 0}, {KInt, 10, "007", MustAccept, 7},
		{KInt, 36, "zz", MustAccept, 35*36 + 35}, {KInt, 10, "1_000", MayEither, 1000}, {KInt16, 10, "1e3", MustReject, 0},
	}
	for _, t := range ints {
		r := refInt(t.k, t.base, t.s)
		if r.Cls != t.cls {
			fail("refInt(%v,%d,%q) class %v want %v", t.k, t.base, t.s, r.Cls, t.cls)
			continue
		}
		if r.HasVal {
			got := int64(0)
			if isSIntKind(t.k) {
				got = r.Val.Int()
			} else {
				got = int64(r.Val.Uint())
			}
			if got != t.v {
				fail("refInt(%v,%d,%q) = %d want %d", t.k, t.base, t.s, got, t.v)
			}
		}
	}
	if r := refInt(KUint64, 10, "18446744073709551615"); r.Cls != MustAccept || r.Val.Uint() != math.MaxUint64 {
		fail("uint64 max")
	}
	fl := []struct {
		k   TK
		s   string
		cls Class
		v   float64
	}{
		{KFloat64, "1.5", MustAccept, 1.5}, {KFloat64, "-0.25", MustAccept, -0.25}, {KFloat64, "1e3", MustAccept, 1000}, {KFloat64, "1e400", MustReject, 0},
		{KFloat32, "3.5e38", MustReject, 0}, {KFloat32, "3.4e38", MustAccept, float64(float32(3.4e38))}, {KFloat64, "abc", MustReject, 0}, {KFloat64, "", MustReject, 0},
		{KFloat64, "1.5 ", MustReject, 0}, {KFloat64, ".5", MustAccept, 0.5}, {KFloat64, "5.", MustAccept, 5}, {KFloat64, "1e", MustReject, 0},
		{KFloat64, "0.1", MustAccept, 0.1}, {KFloat32, "0.1", MustAccept, float64(float32(0.1))}, {KFloat64, "Inf", MayEither, math.Inf(1)},
		{KFloat32, "16777217", MustAccept, 16777216}, {KFloat64, "1.7976931348623157e308", MustAccept, math.MaxFloat64}, {KFloat64, "1.7976931348623159e308", MustReject, 0},
		{KFloat64, "+1", MayEither, 1}, {KFloat64, "1e-400", MayEither, 0}, {KFloat64, "0x1p3", MayEither, 0}, {KFloat64, "--1", MustReject, 0},
	}
	for _, t := range fl {
		r := refFloat(t.k, t.s)
		if r.Cls != t.cls {
			fail("refFloat(%v,%q) class %v want %v", t.k, t.s, r.Cls, t.cls)
			continue
		}
		if r.HasVal && t.cls != MayEither && r.Val.Float() != t.v {
			fail("refFloat(%v,%q) = %v want %v", t.k, t.s, r.Val.Float(), t.v)
		}
	}
	du := []struct {
		s   string
		cls Class
		v   int64
	}{
		{"0", MustAccept, 0}, {"1h", MustAccept, 3600e9}, {"1h2m3s", MustAccept, 3723e9}, {"-5ms", MustAccept, -5e6}, {"1.5ms", MustAccept, 1500000}, {"1.5ns", MayEither, 0},
		{"5", MustReject, 0}, {"", MustReject, 0}, {"1x", MustReject, 0}, {"1µs", MustAccept, 1000}, {"2562047h47m16.854775807s", MustAccept, math.MaxInt64},
		{"2562047h47m16.854775808s", MustReject, 0}, {"9223372036854775807ns", MustAccept, math.MaxInt64}, {"9223372036854775808ns", MustReject, 0}, {"1h ", MustReject, 0}, {"h", MustReject, 0},
	}
	for _, t := range du {
		r := refDuration(t.s)
		if r.Cls != t.cls {
			fail("refDuration(%q) class %v (%s) want %v", t.s, r.Cls, r.Why, t.cls)
			continue
		}
		if r.HasVal && t.cls == MustAccept && r.Val.Int() != t.v {
			fail("refDuration(%q) = %d want %d", t.s, r.Val.Int(), t.v)
		}
	}
	if r := refCelsius("12C"); r.Cls != MustAccept || r.Val.Int() != 12 {
		fail("celsius")
	}
	if r := refCelsius("12"); r.Cls != MustReject {
		fail("celsius reject")
	}
	if r := refPoint("3,-4"); r.Cls != MustAccept {
		fail("point")
	}
	if k, v, cls := RefMapEntry(TypeSpec{K: KInt, W: WMap, MapKey: KString}, 10, "a:b:c"); cls != MustReject || k.Val.String() != "a" || v.Cls != MustReject {
		fail("map entry a:b:c for int value")
	}
	if k, v, cls := RefMapEntry(TypeSpec{K: KString, W: WMap, MapKey: KString}, 10, "a:b:c"); cls != MustAccept || k.Val.String() != "a" || v.Val.String() != "b:c" {
		fail("map entry splits at first colon")
	}
	bad += selftestExtra()
	if bad > 0 {
		fmt.Fprintf(os.Stderr, "selftest: %d failures\n", bad)
		return 2
	}
	fmt.Println("selftest ok")
	return 0
}
