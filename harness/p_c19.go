package main

import (
	"fmt"
	"os"
	"reflect"
	"strconv"
	"strings"
	"unicode/utf8"

	flags "github.com/jessevdk/go-flags"
)

// C19: declarations are read faithfully or rejected at setup.

type kv struct{ K, V string }

// renderLiteral writes v as a legal Go double-quoted literal with randomly chosen escapes.
func renderLiteral(r *Rand, v string) string {
	var sb strings.Builder
	sb.WriteByte('"')
	for i := 0; i < len(v); {
		ru, n := utf8.DecodeRuneInString(v[i:])
		if ru == utf8.RuneError && n == 1 {
			sb.WriteString(fmt.Sprintf("\\x%02x", v[i]))
			i++
			continue
		}
		i += n
		switch {
		case ru == '"':
			sb.WriteString("\\\"")
		case ru == '\\':
			sb.WriteString("\\\\")
		case ru == '\n':
			sb.WriteString("\\n")
		case ru == '\t':
			sb.WriteString([]string{"\\t", "\\x09", "\\011"}[r.Intn(3)])
		case ru < 0x20 || ru == 0x7f:
			sb.WriteString(fmt.Sprintf("\\x%02x", ru))
		case ru < 0x80:
			switch r.Intn(12) {
			case 0:
				sb.WriteString(fmt.Sprintf("\\x%02x", ru))
			case 1:
				sb.WriteString(fmt.Sprintf("\\%03o", ru))
			case 2:
				sb.WriteString(fmt.Sprintf("\\u%04x", ru))
			default:
				sb.WriteRune(ru)
			}
		default:
			switch r.Intn(5) {
			case 0:
				if ru <= 0xffff {
					sb.WriteString(fmt.Sprintf("\\u%04x", ru))
				} else {
					sb.WriteString(fmt.Sprintf("\\U%08x", ru))
				}
			case 1:
				sb.WriteString(fmt.Sprintf("\\U%08x", ru))
			case 2:
				for _, b := range []byte(string(ru)) {
					sb.WriteString(fmt.Sprintf("\\x%02x", b))
				}
			default:
				sb.WriteRune(ru)
			}
		}
	}
	sb.WriteByte('"')
	return sb.String()
}

func renderTag(r *Rand, kvs []kv) string {
	var sb strings.Builder
	for i, e := range kvs {
		if i > 0 {
			sb.WriteString(strings.Repeat(" ", r.Range(1, 2)))
		}
		sb.WriteString(e.K + ":" + renderLiteral(r, e.V))
	}
	return sb.String()
}

// strictParse is the well-formedness judge: key:"Go string literal" items separated by spaces (the convention of
// reflect.StructTag). It returns the items, or (nil, reason) if malformed; lenient=true marks shapes the
// convention rejects but about which the statement is silent (odd key characters).
func strictParse(tag string) (items []kv, malformed string, lenient bool) {
	s := tag
	for {
		s = strings.TrimLeft(s, " ")
		if s == "" {
			return items, "", lenient
		}
		i := 0
		for i < len(s) && s[i] != ' ' && s[i] != ':' && s[i] != '"' {
			if s[i] < 0x20 || s[i] == 0x7f {
				lenient = true
			}
			i++
		}
		if i == 0 {
			if s[0] == ':' {
				lenient = true // empty key
			} else {
				return nil, "value without key", lenient
			}
		}
		if i >= len(s) || s[i] != ':' {
			return nil, "missing ':' after key", lenient
		}
		key := s[:i]
		s = s[i+1:]
		if s == "" || s[0] != '"' {
			return nil, "missing opening quote", lenient
		}
		// scan the literal
		j := 1
		for j < len(s) && s[j] != '"' {
			if s[j] == '\n' {
				return nil, "raw newline in value", lenient
			}
			if s[j] == '\\' {
				j++
			}
			j++
		}
		if j >= len(s) {
			return nil, "missing closing quote", lenient
		}
		val, err := strconv.Unquote(s[:j+1])
		if err != nil {
			return nil, "bad escape", lenient
		}
		items = append(items, kv{key, val})
		s = s[j+1:]
	}
}

func lastOf(items []kv, k string) string {
	v := ""
	for _, e := range items {
		if e.K == k {
			v = e.V
		}
	}
	return v
}

func allOf(items []kv, k string) []string {
	var r []string
	for _, e := range items {
		if e.K == k {
			r = append(r, e.V)
		}
	}
	return r
}

func truthy(s string) bool { return !(s == "" || s == "false" || s == "no" || s == "0") }

var c19Texts = []string{"plain", "with space", "quo\"te", "back\\slash", "new\nline", "tab\there", "é", "λ世", "😀", "a:b", "k:\"v\"", "x=y", "", "`tick`", "'single'", "trailing\\", "%d", "\x01ctl", "a  b"}

func c19Text(r *Rand, id int) string {
	if r.Chance(1, 9) {
		return "" // an explicitly empty value is a value
	}
	return fmt.Sprintf("t%03d", id) + c19Texts[r.Intn(len(c19Texts))]
}

type c19Field struct {
	Name  string
	T     TypeSpec
	Items []kv
	Tag   string
}

func c19OptionField(r *Rand, id int, short rune) c19Field {
	f := c19Field{Name: fmt.Sprintf("F%d", id)}
	ts := []TypeSpec{{K: KString}, {K: KInt}, {K: KString, W: WSlice}, {K: KString, W: WMap, MapKey: KString}, {K: KFloat64}, {K: KString, W: WPtr}, {K: KCelsius}, {K: KDuration}}
	f.T = ts[r.Intn(len(ts))]
	add := func(k, v string) { f.Items = append(f.Items, kv{k, v}) }
	if short != 0 {
		add("short", string(short))
	}
	if short == 0 || r.Chance(2, 3) {
		add("long", fmt.Sprintf("o%03d", id)+[]string{"", "-x", "é"}[r.Intn(3)])
	}
	opt := func(p int, f func()) {
		if r.Chance(p, 100) {
			f()
		}
	}
	opt(60, func() { add("description", c19Text(r, id)) })
	opt(40, func() {
		for i := r.Range(1, 3); i > 0; i-- {
			add("default", c19Text(r, id))
		}
	})
	opt(30, func() { add("env", fmt.Sprintf("ENV%d", id)) })
	opt(20, func() { add("env-delim", []string{",", ";", "::", " "}[r.Intn(4)]) })
	opt(30, func() {
		add("required", []string{"true", "yes", "1", "false", "no", "0", "", "x", "False", "NO", "TRUE", "00"}[r.Intn(12)])
	})
	opt(30, func() {
		add("optional", []string{"true", "yes", "false", "no", "0", "", "anything", "FALSE", "No"}[r.Intn(9)])
	})
	opt(30, func() {
		for i := r.Range(1, 2); i > 0; i-- {
			add("optional-value", c19Text(r, id))
		}
	})
	opt(30, func() {
		for i := r.Range(1, 4); i > 0; i-- {
			add("choice", c19Text(r, id))
		}
	})
	opt(30, func() {
		add("hidden", []string{"true", "yes", "false", "no", "0", "", "h", "False", "NO", "0.0"}[r.Intn(10)])
	})
	opt(30, func() { add("value-name", c19Text(r, id)) })
	opt(30, func() { add("default-mask", c19Text(r, id)) })
	// repeated single-valued keys: the last one counts
	opt(25, func() {
		k := []string{"description", "value-name", "env", "default-mask"}[r.Intn(4)]
		add(k, c19Text(r, id))
	})
	opt(15, func() { add("unknown-key", "whatever") })
	// shuffle the item order a little (multi-valued keys keep their relative order anyway)
	if r.Bool() && len(f.Items) > 2 {
		i, j := r.Intn(len(f.Items)), r.Intn(len(f.Items))
		if f.Items[i].K != f.Items[j].K {
			f.Items[i], f.Items[j] = f.Items[j], f.Items[i]
		}
	}
	f.Tag = renderTag(r, f.Items)
	return f
}

// c19CheckOption compares a go-flags Option with the tag model.
func c19CheckOption(o *flags.Option, items []kv) string {
	cmp := func(what, got, want string) string {
		if got != want {
			return fmt.Sprintf("%s: model has %q, tag says %q", what, got, want)
		}
		return ""
	}
	cmpl := func(what string, got, want []string) string {
		if !eqStrs(got, want) && !(len(got) == 0 && len(want) == 0) {
			return fmt.Sprintf("%s: model has %q, tag says %q", what, got, want)
		}
		return ""
	}
	cmpb := func(what string, got, want bool) string {
		if got != want {
			return fmt.Sprintf("%s: model has %v, tag says %v", what, got, want)
		}
		return ""
	}
	short := lastOf(items, "short")
	wantShort := rune(0)
	if short != "" {
		wantShort, _ = utf8.DecodeRuneInString(short)
	}
	checks := []string{
		cmp("Description", o.Description, lastOf(items, "description")),
		cmp("LongName", o.LongName, lastOf(items, "long")),
		cmp("ShortName", string(o.ShortName), string(wantShort)),
		cmpl("Default", o.Default, allOf(items, "default")),
		cmp("EnvDefaultKey", o.EnvDefaultKey, lastOf(items, "env")),
		cmp("EnvDefaultDelim", o.EnvDefaultDelim, lastOf(items, "env-delim")),
		cmpb("OptionalArgument", o.OptionalArgument, truthy(lastOf(items, "optional"))),
		cmpl("OptionalValue", o.OptionalValue, allOf(items, "optional-value")),
		cmpb("Required", o.Required, truthy(lastOf(items, "required"))),
		cmp("ValueName", o.ValueName, lastOf(items, "value-name")),
		cmp("DefaultMask", o.DefaultMask, lastOf(items, "default-mask")),
		cmpl("Choices", o.Choices, allOf(items, "choice")),
		cmpb("Hidden", o.Hidden, truthy(lastOf(items, "hidden"))),
	}
	for _, c := range checks {
		if c != "" {
			return c
		}
	}
	return ""
}

var c19Shorts = []rune("abcdefgijklmnopqrstuvwxyzABCDEFGHIJKLMNOPQRSTUVWXYZ0123456789éλ世😀")

func c19Run(c *Ctx) {
	switch c.K % 5 {
	case 0, 1:
		c19Fidelity(c)
	case 2, 3:
		c19Malformed(c)
	default:
		c19SetupErrors(c)
	}
}

func structOfFields(fs []c19Field) reflect.Type {
	var sf []reflect.StructField
	for _, f := range fs {
		sf = append(sf, reflect.StructField{Name: f.Name, Type: f.T.GoType(), Tag: reflect.StructTag(f.Tag)})
	}
	return reflect.StructOf(sf)
}

// c19Fidelity: every tag attribute is reflected exactly in the public model.
func c19Fidelity(c *Ctx) {
	r := c.R
	id := 0
	next := func() int { id++; return id }
	perm := r.Perm(len(c19Shorts))
	si := 0
	nextShort := func() rune {
		if r.Chance(1, 4) {
			return 0
		}
		si++
		return c19Shorts[perm[si%len(perm)]]
	}
	var rootFields []c19Field
	n := r.Range(1, 4)
	for i := 0; i < n; i++ {
		rootFields = append(rootFields, c19OptionField(r, next(), nextShort()))
	}
	// a nested group
	gid := next()
	gname := c19Text(r, gid)
	if gname == "" {
		gname = fmt.Sprintf("g%03d", gid) // (an empty group tag declares no group)
	}
	grpItems := []kv{{"group", gname}}
	if r.Bool() {
		grpItems = append(grpItems, kv{"description", c19Text(r, gid)})
	}
	if r.Bool() {
		grpItems = append(grpItems, kv{"namespace", fmt.Sprintf("ns%d", gid) + []string{"", "é"}[r.Intn(2)]})
	}
	if r.Bool() {
		grpItems = append(grpItems, kv{"env-namespace", fmt.Sprintf("ENS%d", gid)})
	}
	if r.Chance(1, 3) {
		grpItems = append(grpItems, kv{"hidden", "true"})
	}
	var grpFields []c19Field
	for i := r.Range(1, 3); i > 0; i-- {
		f := c19OptionField(r, next(), nextShort())
		if r.Chance(1, 3) {
			// a long name / env key that happens to start with the group's own namespace and the delimiter
			for j := range f.Items {
				if f.Items[j].K == "long" && lastOf(grpItems, "namespace") != "" {
					f.Items[j].V = lastOf(grpItems, "namespace") + "." + f.Items[j].V
				}
				if f.Items[j].K == "env" && lastOf(grpItems, "env-namespace") != "" {
					f.Items[j].V = lastOf(grpItems, "env-namespace") + "_" + f.Items[j].V
				}
			}
			f.Tag = renderTag(r, f.Items)
		}
		grpFields = append(grpFields, f)
	}
	// a command with aliases, its own options and positional arguments
	cid := next()
	cmdItems := []kv{{"command", fmt.Sprintf("cmd%d", cid)}}
	if r.Bool() {
		cmdItems = append(cmdItems, kv{"description", c19Text(r, cid)})
	}
	if r.Bool() {
		cmdItems = append(cmdItems, kv{"long-description", c19Text(r, cid)})
	}
	for i := r.Range(0, 3); i > 0; i-- {
		cmdItems = append(cmdItems, kv{"alias", fmt.Sprintf("al%d-%d", cid, i) + []string{"", "é"}[r.Intn(2)]})
	}
	if r.Chance(1, 3) {
		cmdItems = append(cmdItems, kv{"subcommands-optional", []string{"true", "yes", "no", "false", "0", "x"}[r.Intn(6)]})
	}
	if r.Chance(1, 3) {
		cmdItems = append(cmdItems, kv{"hidden", "true"})
	}
	var cmdFields []c19Field
	for i := r.Range(0, 2); i > 0; i-- {
		cmdFields = append(cmdFields, c19OptionField(r, next(), nextShort()))
	}
	type posf struct {
		Name  string
		Items []kv
		Slice bool
	}
	var pos []posf
	np := r.Range(0, 3)
	for i := 0; i < np; i++ {
		pid := next()
		p := posf{Name: fmt.Sprintf("P%d", pid)}
		if r.Bool() {
			p.Items = append(p.Items, kv{"positional-arg-name", c19Text(r, pid)})
		}
		if r.Bool() {
			p.Items = append(p.Items, kv{"description", c19Text(r, pid)})
		}
		if r.Bool() {
			p.Items = append(p.Items, kv{"required", []string{"yes", "1", "2", "1-3", "0-2", "3-", "x", "-2", "-", "2-x", "0"}[r.Intn(11)]})
		}
		p.Slice = i == np-1 && r.Bool()
		pos = append(pos, p)
	}
	// assemble the types
	var sf []reflect.StructField
	for _, f := range rootFields {
		sf = append(sf, reflect.StructField{Name: f.Name, Type: f.T.GoType(), Tag: reflect.StructTag(f.Tag)})
	}
	grpTag := renderTag(r, grpItems)
	sf = append(sf, reflect.StructField{Name: "Grp", Type: structOfFields(grpFields), Tag: reflect.StructTag(grpTag)})
	var csf []reflect.StructField
	for _, f := range cmdFields {
		csf = append(csf, reflect.StructField{Name: f.Name, Type: f.T.GoType(), Tag: reflect.StructTag(f.Tag)})
	}
	posReq := r.Bool()
	if np > 0 {
		var psf []reflect.StructField
		for _, p := range pos {
			t := reflect.TypeOf("")
			if p.Slice {
				t = reflect.TypeOf([]string(nil))
			}
			psf = append(psf, reflect.StructField{Name: p.Name, Type: t, Tag: reflect.StructTag(renderTag(r, p.Items))})
		}
		ptag := `positional-args:"yes"`
		if posReq {
			ptag += ` required:"yes"`
		}
		csf = append(csf, reflect.StructField{Name: "Pos", Type: reflect.StructOf(psf), Tag: reflect.StructTag(ptag)})
	}
	// an untagged self-referential pointer field must simply be ignored
	withRec := c.K%50 == 0
	if withRec {
		csf = append(csf, reflect.StructField{Name: "Rec", Type: reflect.TypeOf((*recNode)(nil))})
	}
	cmdTag := renderTag(r, cmdItems)
	sf = append(sf, reflect.StructField{Name: "Cmd", Type: reflect.StructOf(csf), Tag: reflect.StructTag(cmdTag)})
	rt := reflect.StructOf(sf)
	c.Case(func() interface{} {
		var fl []string
		for i := 0; i < rt.NumField(); i++ {
			fl = append(fl, fmt.Sprintf("%s %s `%s`", rt.Field(i).Name, rt.Field(i).Type, rt.Field(i).Tag))
		}
		return map[string]interface{}{"mode": "fidelity", "fields": fl, "self_referential_field": withRec}
	})
	var p *flags.Parser
	var perr error
	earlier := false
	if c.K%4 == 1 {
		// an earlier parser over the same declaration whose model the program edited in place (the lists behind
		// Default, Choices, OptionalValue and Aliases are its own): the next parser reads the declaration, not the
		// leftovers of the first one
		earlier = true
		if pi := safely(func() {
			p0 := flags.NewParser(reflect.New(rt).Interface(), flags.None)
			p0.ParseArgs([]string{"cmd" + fmt.Sprint(cid)})
			var scribble func(cm *flags.Command)
			scribbleGroup := func(g *flags.Group) {}
			scribbleGroup = func(g *flags.Group) {
				for _, o := range g.Options() {
					for _, l := range [][]string{o.Default, o.Choices, o.OptionalValue} {
						for i := range l {
							l[i] = "zz-edited-on-the-earlier-parser"
						}
					}
				}
				for _, sg := range g.Groups() {
					scribbleGroup(sg)
				}
			}
			scribble = func(cm *flags.Command) {
				for i := range cm.Aliases {
					cm.Aliases[i] = "zz-edited-alias"
				}
				scribbleGroup(cm.Group)
				for _, sc := range cm.Commands() {
					scribble(sc)
				}
			}
			scribble(p0.Command)
		}); pi != nil {
			c.Violate("panic:"+panicSite(pi.Stack), "building / editing the earlier parser panicked: %s", pi.Value)
			return
		}
	}
	pi := safely(func() {
		p = flags.NewParser(reflect.New(rt).Interface(), flags.None)
		_, perr = p.ParseArgs([]string{"cmd" + fmt.Sprint(cid)})
	})
	c.Count("declarations_scanned", 1)
	if pi != nil {
		c.Violate("panic:"+panicSite(pi.Stack), "building the parser panicked: %s", pi.Value)
		return
	}
	if fe, ok := perr.(*flags.Error); ok && (fe.Type == flags.ErrTag || fe.Type == flags.ErrDuplicatedFlag || fe.Type == flags.ErrShortNameTooLong || fe.Type == flags.ErrInvalidTag) {
		c.Violate("wellformed-rejected:"+fe.Type.String(), "well-formed declaration rejected: %v", perr)
		return
	}
	// cross-check the harness's own reading of each tag with reflect.StructTag.Lookup (keys that occur once)
	xcheck := func(tag string, items []kv) string {
		cnt := map[string]int{}
		for _, e := range items {
			cnt[e.K]++
		}
		for _, e := range items {
			if cnt[e.K] == 1 {
				if v, ok := reflect.StructTag(tag).Lookup(e.K); !ok || v != e.V {
					return fmt.Sprintf("harness/reflect disagreement on key %s of tag %q", e.K, tag)
				}
			}
		}
		return ""
	}
	for _, f := range append(append(append([]c19Field{}, rootFields...), grpFields...), cmdFields...) {
		if m := xcheck(f.Tag, f.Items); m != "" {
			c.W.out.Broken = m
			return
		}
	}
	// walk the public model
	appGroup := p.Groups()[0]
	find := func(opts []*flags.Option, field string) *flags.Option {
		for _, o := range opts {
			if o.Field().Name == field {
				return o
			}
		}
		return nil
	}
	checkFields := func(opts []*flags.Option, fs []c19Field, where string) bool {
		nopt := 0
		for _, f := range fs {
			isOpt := lastOf(f.Items, "long") != "" || lastOf(f.Items, "short") != "" || lastOf(f.Items, "ini-name") != ""
			o := find(opts, f.Name)
			if !isOpt {
				continue
			}
			nopt++
			if o == nil {
				c.Violate("fidelity:option-missing", "field %s of %s with tag `%s` is not in the model", f.Name, where, f.Tag)
				return false
			}
			if m := c19CheckOption(o, f.Items); m != "" {
				attr := strings.SplitN(m, ":", 2)[0]
				c.Violate("fidelity:option:"+attr, "field %s of %s, tag `%s`: %s", f.Name, where, f.Tag, m)
				return false
			}
		}
		if len(opts) != nopt {
			c.Violate("fidelity:option-count", "%s has %d options in the model, the declaration has %d", where, len(opts), nopt)
			return false
		}
		return true
	}
	if !checkFields(appGroup.Options(), rootFields, "the root struct") {
		return
	}
	if len(appGroup.Groups()) != 1 {
		c.Violate("fidelity:group-missing", "expected one nested group, model has %d", len(appGroup.Groups()))
		return
	}
	g := appGroup.Groups()[0]
	if g.ShortDescription != lastOf(grpItems, "group") || g.LongDescription != lastOf(grpItems, "description") || g.Namespace != lastOf(grpItems, "namespace") || g.EnvNamespace != lastOf(grpItems, "env-namespace") || g.Hidden != (lastOf(grpItems, "hidden") != "") {
		c.Violate("fidelity:group-attributes", "group tag `%s`: model has (%q, %q, %q, %q, hidden=%v)", grpTag, g.ShortDescription, g.LongDescription, g.Namespace, g.EnvNamespace, g.Hidden)
		return
	}
	if !checkFields(g.Options(), grpFields, "the nested group") {
		return
	}
	for _, f := range grpFields {
		o := find(g.Options(), f.Name)
		if o == nil {
			continue
		}
		wl, we := lastOf(f.Items, "long"), lastOf(f.Items, "env")
		if ns := lastOf(grpItems, "namespace"); ns != "" && wl != "" {
			wl = ns + "." + wl
		}
		if ens := lastOf(grpItems, "env-namespace"); ens != "" && we != "" {
			we = ens + "_" + we
		}
		if got := o.LongNameWithNamespace(); got != wl {
			c.Violate("fidelity:namespaced-long-name", "field %s of the nested group (tag `%s`, group tag `%s`): LongNameWithNamespace() = %q, expected %q", f.Name, f.Tag, grpTag, got, wl)
			return
		}
		if got := o.EnvKeyWithNamespace(); got != we {
			c.Violate("fidelity:namespaced-env-key", "field %s of the nested group (tag `%s`, group tag `%s`): EnvKeyWithNamespace() = %q, expected %q", f.Name, f.Tag, grpTag, got, we)
			return
		}
	}
	cmds := p.Commands()
	if len(cmds) != 1 {
		c.Violate("fidelity:command-missing", "expected one command, model has %d", len(cmds))
		return
	}
	cm := cmds[0]
	if cm.Name != lastOf(cmdItems, "command") || cm.ShortDescription != lastOf(cmdItems, "description") || cm.LongDescription != lastOf(cmdItems, "long-description") ||
		!(eqStrs(cm.Aliases, allOf(cmdItems, "alias")) || len(cm.Aliases)+len(allOf(cmdItems, "alias")) == 0) || cm.SubcommandsOptional != (lastOf(cmdItems, "subcommands-optional") != "") || cm.Hidden != (lastOf(cmdItems, "hidden") != "") {
		c.Violate("fidelity:command-attributes", "command tag `%s`: model has (%q, %q, %q, aliases %q, optional=%v, hidden=%v)", cmdTag, cm.Name, cm.ShortDescription, cm.LongDescription, cm.Aliases, cm.SubcommandsOptional, cm.Hidden)
		return
	}
	if !checkFields(cm.Options(), cmdFields, "the command") {
		return
	}
	args := cm.Args()
	if len(args) != np {
		c.Violate("fidelity:positional-count", "command has %d positionals in the model, declaration has %d", len(args), np)
		return
	}
	for i, a := range args {
		wn := lastOf(pos[i].Items, "positional-arg-name")
		if wn == "" {
			wn = pos[i].Name
		}
		wr, wm := -1, -1
		if rq := lastOf(pos[i].Items, "required"); rq != "" {
			wr = 1
			if j := strings.Index(rq, "-"); j >= 0 {
				if v, err := strconv.ParseInt(rq[:j], 10, 32); err == nil {
					wr = int(v)
				}
				if v, err := strconv.ParseInt(rq[j+1:], 10, 32); err == nil {
					wm = int(v)
				}
			} else if v, err := strconv.ParseInt(rq, 10, 32); err == nil {
				wr = int(v)
			}
		}
		if a.Name != wn || a.Description != lastOf(pos[i].Items, "description") || a.Required != wr || a.RequiredMaximum != wm {
			c.Violate("fidelity:positional-attributes", "positional %d with tag `%s`: model has (%q, %q, %d, %d), expected (%q, %q, %d, %d)", i, renderTag(&Rand{s: 1}, pos[i].Items), a.Name, a.Description, a.Required, a.RequiredMaximum, wn, lastOf(pos[i].Items, "description"), wr, wm)
			return
		}
	}
	if np > 0 && cm.ArgsRequired != posReq {
		c.Violate("fidelity:args-required", "ArgsRequired=%v, declaration says %v", cm.ArgsRequired, posReq)
		return
	}
	cell := "fidelity"
	if withRec {
		cell = "fidelity/self-referential-field"
	}
	if earlier {
		cell += "/after-an-edited-earlier-parser"
	}
	// the model stays faithful when the program extends it after looking something up: the finders see a group
	// added below the top level and a changed namespace
	if c.K%3 == 0 {
		nsOf := func() string {
			if g.Namespace != "" {
				return g.Namespace + "."
			}
			return ""
		}
		for _, f := range grpFields {
			if l := lastOf(f.Items, "long"); l != "" {
				if o := p.FindOptionByLongName(nsOf() + l); o == nil || o.Field().Name != f.Name {
					c.Violate("finder:declared-option", "FindOptionByLongName(%q) does not return field %s of the nested group", nsOf()+l, f.Name)
					return
				}
			}
		}
		late := &struct {
			Late string `long:"zz-late" short:"~"`
		}{}
		if _, err := g.AddGroup("Late Options", "", late); err != nil {
			c.Violate("finder:late-group-rejected", "AddGroup on the nested group failed: %v", err)
			return
		}
		if o := p.FindOptionByLongName(nsOf() + "zz-late"); o == nil || o.Field().Name != "Late" {
			c.Violate("finder:late-group", "after AddGroup below the top level, parser.FindOptionByLongName(%q) = %v (FindOptionByShortName finds it: %v)", nsOf()+"zz-late", o, p.FindOptionByShortName('~') != nil)
			return
		}
		old := nsOf() + "zz-late"
		g.Namespace = "renamed"
		if o := p.FindOptionByLongName("renamed.zz-late"); o == nil || o.Field().Name != "Late" {
			c.Violate("finder:namespace-change", "after the group's Namespace was set to \"renamed\", FindOptionByLongName(\"renamed.zz-late\") = %v", o)
			return
		}
		if o := p.FindOptionByLongName(old); o != nil && old != "renamed.zz-late" {
			c.Violate("finder:namespace-change", "after the namespace change the old name %q still resolves", old)
			return
		}
		cell += "+late-extension"
	}
	nkeys := 0
	for _, f := range append(append(append([]c19Field{}, rootFields...), grpFields...), cmdFields...) {
		nkeys += len(f.Items)
	}
	c.Held(cell, fmt.Sprintf("opts=%d pos=%d keys=%d grp=%d cmd=%d", len(rootFields)+len(grpFields)+len(cmdFields), np, nkeys, len(grpItems), len(cmdItems)))
}

type recNode struct {
	Next *recNode
}

// c19Malformed: a well-formed tag mutated at one byte offset.
func c19Malformed(c *Ctx) {
	r := c.R
	f := c19OptionField(r, 1, 'a')
	tag := f.Tag
	off := r.Intn(len(tag) + 1)
	var mut string
	op := r.Intn(3)
	switch op {
	case 0: // delete
		if off >= len(tag) {
			off = len(tag) - 1
		}
		mut = tag[:off] + tag[off+1:]
	case 1: // insert
		ins := []string{"\"", ":", " ", "\\", "x", "\n", "\\x", "\\u12", "\\q"}[r.Intn(9)]
		mut = tag[:off] + ins + tag[off:]
	default: // truncate
		mut = tag[:off]
	}
	items, bad, lenient := strictParse(mut)
	rt := reflect.StructOf([]reflect.StructField{{Name: "F1", Type: f.T.GoType(), Tag: reflect.StructTag(mut)}})
	// where the field sits: on the root struct, inside a nested group, or among the fields of a positional-args
	// struct (of the parser or of a command added later) - every exported field's tag is read
	place := []string{"root", "root", "root", "nested-group", "positional-of-parser", "positional-of-added-command", "positional-of-tagged-command"}[r.Intn(7)]
	inner := rt
	switch place {
	case "nested-group":
		rt = reflect.StructOf([]reflect.StructField{{Name: "G", Type: inner, Tag: `group:"Nested"`}})
	case "positional-of-parser", "positional-of-added-command":
		rt = reflect.StructOf([]reflect.StructField{{Name: "V", Type: reflect.TypeOf(false), Tag: `short:"v"`}, {Name: "Args", Type: inner, Tag: `positional-args:"yes"`}})
	case "positional-of-tagged-command":
		ct := reflect.StructOf([]reflect.StructField{{Name: "Args", Type: inner, Tag: `positional-args:"yes"`}})
		rt = reflect.StructOf([]reflect.StructField{{Name: "Run", Type: ct, Tag: `command:"run"`}})
	}
	c.Case(func() interface{} {
		return map[string]interface{}{"mode": "malformed", "original": tag, "mutant": mut, "op": []string{"delete", "insert", "truncate"}[op], "offset": off, "judge": bad, "field_is_in": place}
	})
	var p *flags.Parser
	var perr error
	pi := safely(func() {
		if place == "positional-of-added-command" {
			p = flags.NewParser(&struct{}{}, flags.None)
			p.SubcommandsOptional = true
			if _, aerr := p.AddCommand("run", "", "", reflect.New(rt).Interface()); aerr != nil {
				perr = aerr
				return
			}
		} else {
			p = flags.NewParser(reflect.New(rt).Interface(), flags.None)
			p.SubcommandsOptional = true
		}
		_, perr = p.ParseArgs(nil)
	})
	c.Count("declarations_scanned", 1)
	if pi != nil {
		c.Violate("panic:"+panicSite(pi.Stack), "a mutated tag made the parser panic: %s", pi.Value)
		return
	}
	fe, _ := perr.(*flags.Error)
	if lenient {
		c.Unspec("odd key characters: the convention rejects them, the statement is silent")
		return
	}
	if bad != "" {
		if fe == nil || fe.Type != flags.ErrTag {
			c.Violate("malformed-accepted:"+strings.ReplaceAll(bad, " ", "-"), "malformed tag (%s) `%s` was not rejected with ErrTag: %s (%v)", bad, mut, errTypeName(perr), perr)
			return
		}
		c.Held("malformed/"+strings.ReplaceAll(bad, " ", "-")+"/in-"+place, fmt.Sprintf("op=%d off=%d/%d", op, off, len(tag)))
		return
	}
	if place != "root" {
		if fe != nil && fe.Type == flags.ErrTag {
			c.Violate("wellformed-mutant-rejected", "tag `%s` (field in %s) is still well-formed but was rejected: %v", mut, place, perr)
			return
		}
		c.Held("mutant/still-wellformed/in-"+place, "")
		return
	}
	// still well-formed: must be read faithfully, or be rejected for a documented semantic reason
	if fe != nil {
		switch fe.Type {
		case flags.ErrTag:
			c.Violate("wellformed-mutant-rejected", "tag `%s` is still well-formed but was rejected: %v", mut, perr)
			return
		case flags.ErrShortNameTooLong:
			if utf8.RuneCountInString(lastOf(items, "short")) > 1 {
				c.Held("mutant/short-too-long", "")
				return
			}
			c.Violate("spurious-short-too-long", "tag `%s`: %v", mut, perr)
			return
		}
	}
	isOpt := lastOf(items, "long") != "" || lastOf(items, "short") != "" || lastOf(items, "ini-name") != ""
	opts := p.Groups()[0].Options()
	if !isOpt {
		if len(opts) != 0 {
			c.Violate("mutant:phantom-option", "tag `%s` declares no option but the model has one", mut)
			return
		}
		c.Held("mutant/not-an-option", "")
		return
	}
	if fe != nil && fe.Type != flags.ErrRequired && fe.Type != flags.ErrMarshal {
		c.Unspec("mutant rejected for a semantic reason: " + fe.Type.String())
		return
	}
	if len(opts) != 1 {
		c.Violate("mutant:option-missing", "tag `%s` declares an option, the model has %d", mut, len(opts))
		return
	}
	if m := c19CheckOption(opts[0], items); m != "" {
		c.Violate("mutant:misread:"+strings.SplitN(m, ":", 2)[0], "tag `%s`: %s", mut, m)
		return
	}
	c.Held("mutant/still-wellformed", fmt.Sprintf("op=%d off=%d/%d", op, off, len(tag)))
}

// c19SetupErrors: over-long short names, defaults on booleans, duplicate names (also created by namespaces).
func c19SetupErrors(c *Ctx) {
	r := c.R
	kind := []string{"short-too-long-ascii", "short-too-long-multibyte", "default-on-bool", "dup-short", "dup-long", "dup-long-via-namespace", "dup-in-nested-group", "dup-short-multibyte", "no-duplicate-across-commands", "dup-random-nesting", "dup-random-nesting", "no-dup-random-nesting", "same-untagged-struct-twice", "same-untagged-struct-twice-no-clash", "same-struct-two-groups", "same-struct-inline-then-group"}[(c.K/5)%16]
	via := []string{"NewParser", "AddGroup", "AddCommand"}[(c.K/75)%3]
	str := reflect.TypeOf("")
	mk := func(fs ...reflect.StructField) reflect.Type { return reflect.StructOf(fs) }
	fld := func(name string, t reflect.Type, tag string) reflect.StructField {
		return reflect.StructField{Name: name, Type: t, Tag: reflect.StructTag(tag)}
	}
	var rt reflect.Type
	var want flags.ErrorType
	wantErr := true
	wantOptions := -1
	wantFind := ""
	wantCommand := ""
	switch kind {
	case "short-too-long-ascii":
		rt = mk(fld("A", str, `short:"ab" long:"alpha"`))
		want = flags.ErrShortNameTooLong
	case "short-too-long-multibyte":
		rt = mk(fld("A", str, `short:"`+r.Pick([]string{"éé", "世界", "aé", "😀b"})+`"`))
		want = flags.ErrShortNameTooLong
	case "default-on-bool":
		bt := []reflect.Type{reflect.TypeOf(false), reflect.TypeOf([]bool(nil)), reflect.TypeOf((*bool)(nil)), reflect.TypeOf(func() {})}[r.Intn(4)]
		rt = mk(fld("A", bt, `short:"b" long:"bee" default:"true"`))
		want = flags.ErrInvalidTag
	case "dup-short":
		rt = mk(fld("A", str, `short:"x" long:"one"`), fld("Pad", str, `long:"pad"`), fld("B", str, `short:"x" long:"two"`))
		want = flags.ErrDuplicatedFlag
	case "dup-short-multibyte":
		rt = mk(fld("A", str, `short:"é"`), fld("B", str, `short:"é" long:"two"`))
		want = flags.ErrDuplicatedFlag
	case "dup-long":
		rt = mk(fld("A", str, `long:"same"`), fld("B", reflect.TypeOf(0), `short:"b" long:"same"`))
		want = flags.ErrDuplicatedFlag
	case "dup-long-via-namespace":
		inner := mk(fld("A", str, `long:"name"`))
		rt = mk(fld("B", str, `long:"ns.name"`), fld("G", inner, `group:"G" namespace:"ns"`))
		want = flags.ErrDuplicatedFlag
	case "dup-in-nested-group":
		inner2 := mk(fld("A", str, `short:"q"`))
		inner := mk(fld("G2", inner2, `group:"G2"`), fld("X", str, `long:"x"`))
		rt = mk(fld("B", str, `short:"q" long:"bee"`), fld("G", inner, `group:"G"`))
		want = flags.ErrDuplicatedFlag
	case "dup-random-nesting", "no-dup-random-nesting":
		// two options in different (nested, possibly namespaced) groups of one declaration whose short names or
		// namespaced long names collide - or, for the negative control, differ only in their namespaces
		depth := r.Range(1, 3)
		var chain []string
		for i := 0; i < depth; i++ {
			if r.Chance(2, 3) {
				chain = append(chain, fmt.Sprintf("n%d", r.Intn(50))+[]string{"", "é", "-x"}[r.Intn(3)])
			} else {
				chain = append(chain, "")
			}
		}
		var ns []string
		for _, x := range chain {
			if x != "" {
				ns = append(ns, x)
			}
		}
		base := fmt.Sprintf("name%d", r.Intn(100))
		useShort := r.Chance(1, 3)
		innerTag, outerTag := "", ""
		if kind == "dup-random-nesting" {
			if useShort {
				sr := string(c19Shorts[r.Intn(len(c19Shorts))])
				innerTag, outerTag = `short:"`+sr+`" long:"in`+base+`"`, `short:"`+sr+`" long:"out`+base+`"`
			} else {
				innerTag = `long:"` + base + `"`
				outerTag = `long:"` + strings.Join(append(append([]string{}, ns...), base), ".") + `"`
			}
			want = flags.ErrDuplicatedFlag
		} else {
			// same long name, different namespaces: not a duplicate
			if len(ns) == 0 {
				ns = []string{"only"}
				chain[0] = "only"
			}
			innerTag, outerTag = `long:"`+base+`"`, `long:"`+base+`"`
			wantErr = false
		}
		cur := mk(fld("Inner", str, innerTag), fld("InnerPad", reflect.TypeOf(0), `long:"pad`+fmt.Sprint(depth)+`"`))
		for i := depth - 1; i >= 0; i-- {
			tag := fmt.Sprintf(`group:"G%d"`, i)
			if chain[i] != "" {
				tag += ` namespace:"` + chain[i] + `"`
			}
			fields := []reflect.StructField{fld(fmt.Sprintf("Sub%d", i), cur, tag)}
			if r.Bool() {
				fields = append([]reflect.StructField{fld(fmt.Sprintf("Pad%d", i), str, fmt.Sprintf(`long:"lvl%dpad"`, i))}, fields...)
			}
			if i == 0 {
				if r.Bool() {
					fields = append(fields, fld("Outer", str, outerTag))
				} else {
					fields = append([]reflect.StructField{fld("Outer", str, outerTag)}, fields...)
				}
			}
			cur = mk(fields...)
		}
		rt = cur
	case "same-untagged-struct-twice", "same-untagged-struct-twice-no-clash":
		// one struct type used for two untagged fields of the same struct (value and/or pointer): both copies are
		// scanned into the same group - their option names clash, unless the options have no flag names at all
		tag := `long:"host" short:"H"`
		if kind == "same-untagged-struct-twice-no-clash" {
			tag = `ini-name:"host"`
			wantErr = false
			wantOptions = 3
		}
		ep := mk(fld("Host", str, tag))
		first, second := ep, reflect.Type(reflect.PtrTo(ep))
		switch r.Intn(3) {
		case 0:
			first = reflect.PtrTo(ep)
		case 1:
			second = ep
		}
		rt = mk(fld("A", str, `long:"alpha"`), fld("Primary", first, ""), fld("Secondary", second, ""))
		want = flags.ErrDuplicatedFlag
	case "same-struct-two-groups":
		// one struct type declares two groups (or a group and a command) of the same struct; the later one through
		// a pointer: both are read
		ep := mk(fld("Host", str, `long:"host"`)) // (no short name: those are not namespaced and would clash)
		firstTag := []string{`group:"Primary" namespace:"p"`, `command:"primary"`}[r.Intn(2)]
		rt = mk(fld("A", str, `long:"alpha"`), fld("Primary", ep, firstTag), fld("Replica", reflect.PtrTo(ep), `group:"Replica" namespace:"r"`))
		wantErr = false
		wantFind = "r.host"
	case "same-struct-inline-then-group":
		// a struct type that was first read inline (untagged field) and is then used, through a pointer, for a
		// tagged group or command: the second use is a declaration of its own
		ep := mk(fld("Host", str, `long:"host"`))
		secondTag := []string{`group:"Replica" namespace:"r"`, `group:"Replica" namespace:"r"`, `command:"replica"`}[r.Intn(3)]
		rt = mk(fld("A", str, `long:"alpha"`), fld("Primary", ep, ``), fld("Replica", reflect.PtrTo(ep), secondTag))
		wantErr = false
		if strings.HasPrefix(secondTag, "group") {
			wantFind = "r.host"
		} else {
			wantCommand = "replica"
		}
	case "no-duplicate-across-commands":
		cmd := mk(fld("A", str, `short:"v" long:"verbose"`))
		rt = mk(fld("B", str, `short:"v" long:"verbose"`), fld("C", cmd, `command:"sub"`))
		wantErr = false
	}
	c.Case(func() interface{} {
		var fl []string
		for i := 0; i < rt.NumField(); i++ {
			fl = append(fl, fmt.Sprintf("%s %s `%s`", rt.Field(i).Name, rt.Field(i).Type, rt.Field(i).Tag))
		}
		return map[string]interface{}{"mode": "setup-error", "kind": kind, "via": via, "fields": fl}
	})
	var err error
	gotOptions := -1
	findMissing := false
	leftBehind := false
	completionMode := via == "NewParser" && wantErr && c.K%4 == 1 && c.W.Tier != "race"
	handlerCalls := 0
	pi := safely(func() {
		switch via {
		case "NewParser":
			p := flags.NewParser(reflect.New(rt).Interface(), flags.None)
			if completionMode {
				// a declaration that must be refused is refused in completion mode as well - not completed from
				os.Setenv("GO_FLAGS_COMPLETION", "1")
				defer os.Unsetenv("GO_FLAGS_COMPLETION")
				p.CompletionHandler = func(items []flags.Completion) { handlerCalls++ }
				_, err = p.ParseArgs([]string{"--"})
				return
			}
			_, err = p.ParseArgs(nil)
			if gs := p.Groups(); len(gs) > 0 {
				gotOptions = len(gs[0].Options())
			}
			if wantFind != "" && err == nil && p.FindOptionByLongName(wantFind) == nil {
				findMissing = true
			}
			if wantCommand != "" && err == nil && (p.Find(wantCommand) == nil || p.Find(wantCommand).FindOptionByLongName("host") == nil) {
				findMissing = true
				wantFind = "host of command " + wantCommand
			}
		case "AddGroup":
			p := flags.NewNamedParser("app", flags.None)
			_, err = p.AddGroup("G", "", reflect.New(rt).Interface())
		case "AddCommand":
			p := flags.NewNamedParser("app", flags.None)
			_, err = p.AddCommand("c", "", "", reflect.New(rt).Interface())
			if err != nil && (p.Find("c") != nil || len(p.Commands()) != 0) {
				// (a plug-in host logs the error and carries on with the other commands)
				leftBehind = true
			}
		}
	})
	c.Count("declarations_scanned", 1)
	if pi != nil {
		c.Violate("panic:"+kind+":"+panicSite(pi.Stack), "%s via %s panicked: %s", kind, via, pi.Value)
		return
	}
	fe, _ := err.(*flags.Error)
	if handlerCalls > 0 {
		c.Violate("setup:"+kind+":completed-from-a-refused-declaration", "%s: the completion handler was called %d times although the declaration must be refused (error returned: %v)", kind, handlerCalls, err)
		return
	}
	if leftBehind {
		c.Violate("setup:"+kind+":rejected-command-stays-registered", "%s: AddCommand returned %v, but the rejected command is part of the model (Find / Commands() return it)", kind, err)
		return
	}
	if findMissing {
		c.Violate("setup:"+kind+":second-use-of-the-type-not-read", "%s: the option --%s of the second field of the same struct type is not in the model (no error was reported)", kind, wantFind)
		return
	}
	if !wantErr && wantOptions >= 0 && via == "NewParser" && err == nil && gotOptions != wantOptions {
		c.Violate("setup:"+kind+":option-count", "%s: the group holds %d options, the declaration has %d", kind, gotOptions, wantOptions)
		return
	}
	if !wantErr {
		if fe != nil && fe.Type == flags.ErrDuplicatedFlag {
			c.Violate("spurious-duplicate:"+kind, "distinct names (a command and its parent, or different namespaces) were rejected as duplicates: %v", err)
			return
		}
		if err != nil && fe == nil {
			c.Violate("setup:"+kind+":unexpected-error", "unexpected error %v", err)
			return
		}
		c.Held("setup/"+kind+"/"+via, fmt.Sprint(rt.NumField(), rt.String()[:minInt(len(rt.String()), 80)]))
		return
	}
	if fe == nil || fe.Type != want {
		c.Violate("setup:"+kind+":"+via, "%s via %s: got %s (%v), want %s", kind, via, errTypeName(err), err, want)
		return
	}
	c.Held("setup/"+kind+"/"+via, fmt.Sprint(rt.NumField(), rt.String()[:minInt(len(rt.String()), 80)]))
}

func init() {
	register(&Property{
		ID:    "C19",
		Title: "Declarations are read faithfully or rejected at setup",
		Cases: func(tier string) int64 {
			switch tier {
			case "thorough":
				return 1500000
			case "race":
				return 0
			}
			return 50000
		},
		Run:              c19Run,
		MinNontrivial:    300,
		DeathIsViolation: true,
		DeathClass: func(tier string, seed, k int64) string {
			if k%5 <= 1 && k%50 == 0 {
				return "self-referential-pointer-field"
			}
			return "other"
		},
		Rule:        "case k, k mod 5: (0,1) fidelity: a root struct, a nested group, a command with aliases, options and positional arguments, whose tags are rendered from a key/value model with randomly chosen legal Go escapes (\\\" \\\\ \\n \\t \\xHH octal \\uHHHH \\UHHHHHHHH, raw non-ASCII), repeated keys, truthy/falsy marks, non-ASCII names; every exported attribute of every Option/Group/Command/Arg reachable through the public accessors is compared with the model (last value of single-valued keys, all values in order of default/choice/optional-value/alias), cross-checked with reflect.StructTag.Lookup; every 50th case adds an untagged self-referential pointer field; (2,3) a well-formed tag with one byte deleted / one fragment inserted / truncated at a random offset: a strict tag grammar decides whether the mutant is malformed (=> ErrTag, never a panic) or still well-formed (=> read faithfully); (4) over-long short names (ASCII, multi-byte), defaults on bool/[]bool/*bool/func(), duplicate short/long names incl. one created by a namespace and one in a nested group, through NewParser, AddGroup and AddCommand, plus the legal sharing of names between a command and its parent. distinct = (mode, kind, mutation op/offset class, #options).",
		Assumptions: []string{"group- and command-level hidden and subcommands-optional are 'non-empty => true' (for hidden, falsy spellings are not generated)", "keys containing control characters or empty keys are unspecified", "collisions between separate AddGroup calls are outside 'one declaration'"},
		Technique:   "runtime reference-model monitor: public model compared with a tag model rendered by the generator (and with reflect.StructTag.Lookup); tag mutation at every byte offset judged by a strict grammar; multi-step histories on one parser with direct oracles",
		LevelText:   "Exploration with mutation at random byte offsets (all offsets are covered across cases) and an exact attribute-by-attribute comparison of the public model.",
		LevelNote:   "Trusted: the strict tag grammar (cross-checked against reflect.StructTag.Lookup on every well-formed tag; a disagreement stops the check as broken).",
		DesignRef:   "§4 C19",
	})
}
