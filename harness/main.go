package main

import (
	"fmt"
	"os"
	"sort"
)

func usage() {
	fmt.Fprintln(os.Stderr, "usage: vh run <ID> <quick|thorough> | replay <file> | selftest | list | manifest")
}

func main() {
	if len(os.Args) < 2 {
		usage()
		os.Exit(2)
	}
	switch os.Args[1] {
	case "run":
		if len(os.Args) < 4 {
			usage()
			os.Exit(2)
		}
		os.Exit(runProperty(os.Args[2], os.Args[3]))
	case "worker":
		os.Exit(workerMain(os.Args[2:]))
	case "raceworker":
		os.Exit(raceWorkerMain(os.Args[2:]))
	case "replay":
		os.Exit(replayMain(os.Args[2]))
	case "selftest":
		os.Exit(selftest())
	case "list":
		ids := []string{}
		for id := range registry {
			ids = append(ids, id)
		}
		sort.Strings(ids)
		for _, id := range ids {
			p := registry[id]
			fmt.Printf("%s quick=%d thorough=%d race=%d\n", id, p.Cases("quick"), p.Cases("thorough"), p.RaceCases)
		}
	case "manifest":
		writeManifest()
	default:
		usage()
		os.Exit(2)
	}
}
