package main

import (
	"fmt"
	"os"
	"reflect"
	"sort"
	"strconv"
	"strings"
	"time"

	flags "github.com/jessevdk/go-flags"
)

// Options registered through the public Group.AddOption API (Parser, Command and Group all expose it): they are
// part of "all declarations the library accepts" but have no struct field behind them - the program hands the
// library a pointer to a variable of its own. The declaration generator builds struct types only, so these are
// added to the live parser after Build and judged by their own small denotation (single-token --name=value
// occurrences, whose meaning does not depend on anything that follows).

type apiOpt struct {
	Long    string
	Short   rune
	Kind    string
	Home    string
	Default []string
	Ptr     reflect.Value // pointer to the program's variable
	FO      *flags.Option
	Full    string // long name including the namespaces of the home group
	InCmd   bool
	Init    bool // the program stored content in the list / map before registering it
}

// iint / istrs: the variable has interface type and holds a pointer to an int / a []string the program allocated
var apiKinds = []string{"int", "string", "strs", "map", "float", "bool", "dur", "u8", "int", "string", "iint", "istrs"}

// bk: the kind of the value an option finally stores into
func (a *apiOpt) bk() string {
	switch a.Kind {
	case "iint":
		return "int"
	case "istrs":
		return "strs"
	}
	return a.Kind
}

// shorts outside both generator pools
var apiShorts = []rune("@%+~")

func apiVar(kind string) reflect.Value {
	switch kind {
	case "iint":
		iv := new(interface{})
		*iv = new(int)
		return reflect.ValueOf(iv)
	case "istrs":
		iv := new(interface{})
		*iv = new([]string)
		return reflect.ValueOf(iv)
	case "int":
		return reflect.ValueOf(new(int))
	case "string":
		return reflect.ValueOf(new(string))
	case "strs":
		return reflect.ValueOf(new([]string))
	case "map":
		return reflect.ValueOf(new(map[string]int))
	case "float":
		return reflect.ValueOf(new(float64))
	case "bool":
		return reflect.ValueOf(new(bool))
	case "dur":
		return reflect.ValueOf(new(time.Duration))
	}
	return reflect.ValueOf(new(uint8))
}

func allLiveCommands(c *flags.Command, out []*flags.Command) []*flags.Command {
	for _, s := range c.Commands() {
		out = append(out, s)
		out = allLiveCommands(s, out)
	}
	return out
}

func allLiveGroups(g *flags.Group, out []*flags.Group) []*flags.Group {
	for _, s := range g.Groups() {
		out = append(out, s)
		out = allLiveGroups(s, out)
	}
	return out
}

// addAPIOptions registers 1-3 options on the live parser. rootScope: only homes whose options are valid from the
// first token on (the parser itself and the groups of the root command).
func addAPIOptions(r *Rand, b *Built, rootScope bool) []*apiOpt {
	n := r.Range(1, 3)
	var res []*apiOpt
	for i := 0; i < n; i++ {
		a := &apiOpt{Long: fmt.Sprintf("xadd%d", i+1), Kind: apiKinds[r.Intn(len(apiKinds))]}
		if r.Chance(1, 4) {
			a.Short = apiShorts[i]
		}
		if a.Kind != "bool" && a.Kind != "iint" && a.Kind != "istrs" && r.Chance(1, 4) {
			switch a.Kind {
			case "string":
				a.Default = []string{"dflt"}
			case "strs":
				a.Default = []string{"d1", "d2"}
			case "map":
				a.Default = []string{"k:1"}
			case "dur":
				a.Default = []string{"3s"}
			case "float":
				a.Default = []string{"1.5"}
			default:
				a.Default = []string{"7"}
			}
		}
		a.Ptr = apiVar(a.Kind)
		if (a.Kind == "strs" || a.Kind == "map") && r.Chance(1, 3) {
			// pre-existing content: replaced by the first explicit occurrence (or by defaults), kept otherwise
			a.Init = true
			if a.Kind == "strs" {
				a.Ptr.Elem().Set(reflect.ValueOf([]string{"old"}))
			} else {
				a.Ptr.Elem().Set(reflect.ValueOf(map[string]int{"old": 9}))
			}
		}
		a.FO = &flags.Option{LongName: a.Long, ShortName: a.Short, Description: "added through the API", Default: a.Default}
		groups := allLiveGroups(b.P.Command.Group, nil)
		cmds := allLiveCommands(b.P.Command, nil)
		switch x := r.Intn(4); {
		case x == 1 && len(groups) > 0:
			g := groups[r.Intn(len(groups))]
			g.AddOption(a.FO, a.Ptr.Interface())
			a.Home = "group"
		case x == 2 && len(cmds) > 0 && !rootScope:
			cm := cmds[r.Intn(len(cmds))]
			gs := allLiveGroups(cm.Group, nil)
			if len(gs) > 0 && r.Bool() {
				gs[r.Intn(len(gs))].AddOption(a.FO, a.Ptr.Interface())
				a.Home = "command-group"
			} else {
				cm.AddOption(a.FO, a.Ptr.Interface())
				a.Home = "command"
			}
			a.InCmd = true
		default:
			b.P.AddOption(a.FO, a.Ptr.Interface())
			a.Home = "parser"
		}
		a.Full = a.FO.LongNameWithNamespace()
		res = append(res, a)
	}
	return res
}

func (a *apiOpt) describe() string {
	s := fmt.Sprintf("AddOption(&Option{LongName:%q", a.Long)
	if a.Short != 0 {
		s += fmt.Sprintf(", ShortName:%q", a.Short)
	}
	if len(a.Default) > 0 {
		s += fmt.Sprintf(", Default:%q", a.Default)
	}
	v := "new(" + a.Kind + ")"
	if a.Init {
		v = "&" + a.Kind + "{pre-existing content \"old\"}"
	}
	return s + fmt.Sprintf("}, %s) on %s (effective name --%s)", v, a.Home, a.Full)
}

func describeAPI(as []*apiOpt) []string {
	var r []string
	for _, a := range as {
		r = append(r, a.describe())
	}
	return r
}

var apiGood = map[string][]string{
	"int":    {"5", "-3", "0", "1234567"},
	"string": {"v", "", "a b", "-x", "--y", "ü=1", `"x y"`, `"p\tq\"r"`},
	"strs":   {"e1", "", "e 2", "-e", `"x y"`, `"\u00e9 "`},
	"map":    {"a:1", "b:-2", "a:3", "é:0"},
	"float":  {"2.5", "-1e3", "0"},
	"dur":    {"1m", "250ms", "0s"},
	"u8":     {"0", "255", "17"},
}

var apiBad = map[string][]string{
	"int": {"x", "", "1.5", "99999999999999999999"}, "float": {"x", ""}, "dur": {"5", "x"}, "u8": {"256", "-1", ""}, "map": {"a", "a:x", ":"},
	"string": {}, "strs": {}, "bool": {"maybe"},
}

// apiHostileTokens: tokens that mention the added options in every shape, for totality checks
func apiHostileTokens(r *Rand, as []*apiOpt) []string {
	var pool []string
	for _, a := range as {
		l := a.Full
		pool = append(pool, "--"+l, "--"+l+"=", "--"+l+":", "-"+l, "--"+l+"=--"+l)
		// quoting: a lone quote, an unterminated and an empty quoted string, a dangling escape (attached, and as the
		// next token: "\x01" separates two tokens)
		for _, q := range []string{`"`, `"x`, `""`, `"\`, `"\"`, `'`, `"a"b"`} {
			pool = append(pool, "--"+l+"="+q, "--"+l+"\x01"+q)
		}
		for _, v := range apiGood[a.bk()] {
			pool = append(pool, "--"+l+"="+v)
		}
		for _, v := range apiBad[a.bk()] {
			pool = append(pool, "--"+l+"="+v)
		}
		if a.Short != 0 {
			s := string(a.Short)
			pool = append(pool, "-"+s, "-"+s+"=", "-"+s+"5", "-"+s+s, "-"+s+"=x", "-v"+s, "-"+s+"v", "-"+s+"\xff")
			for _, a2 := range as {
				if a2 != a && a2.Short != 0 {
					pool = append(pool, "-"+s+string(a2.Short), "-"+s+string(a2.Short)+"=1")
				}
			}
		}
	}
	return pool
}

// apiOccurrences: k single-token occurrences with good values plus the expected final content of every variable
// (canonical text), given that nothing else on the command line names these options.
func apiOccurrences(r *Rand, as []*apiOpt, sepOK bool) (toks []string, want map[*apiOpt]string, seen map[*apiOpt]int) {
	want = map[*apiOpt]string{}
	seen = map[*apiOpt]int{}
	ints := map[*apiOpt]map[string]int{}
	strs := map[*apiOpt][]string{}
	k := r.Range(1, 4)
	for i := 0; i < k; i++ {
		a := as[r.Intn(len(as))]
		name := "--" + a.Full
		if a.Short != 0 && r.Bool() {
			name = "-" + string(a.Short)
		}
		if a.Kind == "bool" {
			toks = append(toks, name)
			want[a] = "true"
			seen[a]++
			continue
		}
		v := apiGood[a.bk()][r.Intn(len(apiGood[a.bk()]))]
		negNumber := len(v) > 1 && v[0] == '-' && v[1] >= '0' && v[1] <= '9' && (a.Kind == "int" || a.Kind == "float") // (declared numeric kinds only)
		if sepOK && v != "" && (v[0] != '-' || negNumber) && r.Chance(1, 3) {
			// argument as the next token (an option that takes an argument consumes any next token that does not
			// look like an option)
			toks = append(toks, name, v)
		} else {
			toks = append(toks, name+"="+v)
		}
		seen[a]++
		switch a.bk() {
		case "strs":
			strs[a] = append(strs[a], denoteText(v))
			want[a] = fmt.Sprintf("%q", strs[a])
		case "map":
			if ints[a] == nil {
				ints[a] = map[string]int{}
			}
			kv := strings.SplitN(v, ":", 2)
			var n int
			fmt.Sscanf(kv[1], "%d", &n)
			ints[a][kv[0]] = n
			want[a] = canonIntMap(ints[a])
		case "int", "u8":
			var n int64
			fmt.Sscanf(v, "%d", &n)
			want[a] = fmt.Sprint(n)
		case "float":
			var f float64
			fmt.Sscanf(v, "%g", &f)
			want[a] = fmt.Sprint(f)
		case "dur":
			dv, _ := time.ParseDuration(v)
			want[a] = dv.String()
		default:
			want[a] = fmt.Sprintf("%q", denoteText(v))
		}
	}
	return
}

// denoteText: an argument that is a Go-quoted string denotes the string it quotes (on the command line and in a file)
func denoteText(v string) string {
	if len(v) >= 2 && v[0] == '"' {
		if u, err := strconv.Unquote(v); err == nil {
			return u
		}
	}
	return v
}

func canonIntMap(m map[string]int) string {
	var ks []string
	for k := range m {
		ks = append(ks, k)
	}
	sort.Strings(ks)
	var sb strings.Builder
	for _, k := range ks {
		fmt.Fprintf(&sb, "%q:%d,", k, m[k])
	}
	return sb.String()
}

// apiUnsetWant: the content of a variable whose option did not occur: its defaults (applied by the parse), else
// untouched
func (a *apiOpt) unsetWant() string {
	if len(a.Default) == 0 {
		if a.Init && a.Kind == "strs" {
			return `["old"]`
		}
		if a.Init {
			return `"old":9,`
		}
		switch a.bk() {
		case "int", "u8", "float":
			return "0"
		case "string":
			return `""`
		case "strs":
			return "[]"
		case "map":
			return ""
		case "dur":
			return "0s"
		}
		return "false"
	}
	switch a.Kind {
	case "string":
		return `"dflt"`
	case "strs":
		return `["d1" "d2"]`
	case "map":
		return `"k":1,`
	case "dur":
		return "3s"
	case "float":
		return "1.5"
	}
	return "7"
}

func (a *apiOpt) current() string {
	v := a.Ptr.Elem()
	if a.Kind == "iint" || a.Kind == "istrs" {
		if v.IsNil() || v.Elem().Kind() != reflect.Ptr || v.Elem().IsNil() {
			return "<the interface no longer holds the pointer the program stored>"
		}
		v = v.Elem().Elem()
	}
	switch a.bk() {
	case "strs":
		return fmt.Sprintf("%q", v.Interface().([]string))
	case "map":
		return canonIntMap(v.Interface().(map[string]int))
	case "string":
		return fmt.Sprintf("%q", v.String())
	case "dur":
		return v.Interface().(time.Duration).String()
	}
	return fmt.Sprint(v.Interface())
}

// apiCompare judges the variables behind the added options after a successful parse.
func apiCompare(as []*apiOpt, want map[*apiOpt]string, defaultsApplied bool) (sig, msg string) {
	for _, a := range as {
		w, ok := want[a]
		if !ok {
			if !defaultsApplied && len(a.Default) > 0 {
				continue // reading an INI file does not apply defaults; the variable is whatever the library left
			}
			w = a.unsetWant()
		}
		if got := a.current(); got != w {
			cls := "given"
			if !ok {
				cls = "not-given"
			}
			return "api-added-option:" + cls + ":" + a.Kind, fmt.Sprintf("%s: the variable holds %s, the input denotes %s", a.describe(), got, w)
		}
	}
	return "", ""
}

// apiIniCase (C14): INI entries in the global section that name options added through the API. A well-formed file
// is applied exactly; one unconvertible value is reported with the number of its line.
func apiIniCase(c *Ctx, d *Decl) {
	r := c.Sub("api-ini")
	b := d.Build()
	if b.Err != nil {
		c.Violate("setup-error", "generated declaration rejected: %v", b.Err)
		return
	}
	added := addAPIOptions(r, b, true)
	toks, want, _ := apiOccurrences(r, added, false)
	ignore := r.Bool()
	if ignore {
		b.P.Options |= flags.IgnoreUnknown
	}
	var lines []string
	entryLine := []int{}
	noise := []string{"", "; comment", "# xadd1 = 99", "   ", "\t; xadd2 = x"}
	for _, t := range toks {
		for r.Chance(1, 3) {
			lines = append(lines, noise[r.Intn(len(noise))])
		}
		t = strings.TrimLeft(t, "-")
		name, val := t, "true"
		if i := strings.Index(t, "="); i >= 0 {
			name, val = t[:i], t[i+1:]
		}
		// (the file names an option as the command line does: effective long name, or short name)
		sep := []string{" = ", "=", "  =  ", " =", "= "}[r.Intn(5)]
		if val == "" && sep[len(sep)-1] == ' ' {
			sep = strings.TrimRight(sep, " ")
		}
		lines = append(lines, name+sep+val)
		entryLine = append(entryLine, len(lines))
	}
	faultLine, faultWhat := 0, ""
	if r.Chance(1, 3) {
		bad := map[string][]string{"int": {"x", "1.5", "99999999999999999999"}, "float": {"x"}, "dur": {"x", "5"}, "u8": {"256", "-1"}, "map": {"a:x"}}
		for _, a := range added {
			if vs := bad[a.bk()]; len(vs) > 0 {
				at := r.Intn(len(lines) + 1)
				ln := a.Full + " = " + vs[r.Intn(len(vs))]
				lines = append(lines[:at], append([]string{ln}, lines[at:]...)...)
				faultLine, faultWhat = at+1, ln
				break
			}
		}
	}
	text := strings.Join(lines, []string{"\n", "\r\n"}[r.Intn(2)]) + "\n"
	c.Case(func() interface{} {
		return map[string]interface{}{"declaration": d.Describe(), "added": describeAPI(added), "ini": text, "IgnoreUnknown": ignore}
	})
	var err error
	pi := safely(func() { err = flags.NewIniParser(b.P).Parse(strings.NewReader(text)) })
	c.Count("files_parsed", 1)
	if pi != nil {
		c.Violate("api-added-option:panic:"+panicSite(pi.Stack), "reading an INI file that names an option added through AddOption panicked: %s", pi.Value)
		c.Note("stack", pi.Stack)
		return
	}
	if faultLine > 0 {
		ie, ok := err.(*flags.IniError)
		switch {
		case err == nil:
			c.Violate("api-added-option:fault:not-reported", "line %d (%q) holds an unconvertible value but the file was accepted", faultLine, faultWhat)
		case !ok:
			if fe, isF := err.(*flags.Error); isF && fe.Type == flags.ErrMarshal {
				c.Unspec("conversion error reported as *flags.Error without a line number field")
				return
			}
			c.Violate("api-added-option:fault:untyped", "line %d (%q): error %T: %v", faultLine, faultWhat, err, err)
		case int(ie.LineNumber) != faultLine:
			c.Violate("api-added-option:fault:line", "line %d (%q) is faulty, the error names line %d: %v", faultLine, faultWhat, ie.LineNumber, err)
		}
		if !c.Violated() {
			c.Held("api-added/fault", faultWhat[strings.Index(faultWhat, "=")+1:])
		}
		return
	}
	if err != nil {
		c.Violate("api-added-option:base-file-rejected", "well-formed file rejected: %v", err)
		return
	}
	if sig, msg := apiCompare(added, want, false); sig != "" {
		c.Violate(sig, "%s", msg)
		return
	}
	kinds := ""
	for _, a := range added {
		kinds += a.Kind + "@" + a.Home + ","
	}
	c.Held("api-added/applied", kinds)
}

// ---- a parser that consists of API-added options only (C05: value sources, C06: required) -------------------

type miniOpt struct {
	*apiOpt
	Required bool
	EnvKey   string // as given to the Option
	EnvFull  string // with the env namespace of the home group
	EnvDelim string
	EnvVals  []string // nil = variable not set
	CmdHome  bool
	Hidden   bool
	Mask     bool
}

type miniParser struct {
	P      *flags.Parser
	Opts   []*miniOpt
	HasCmd bool
	Cmd    *flags.Command
	Desc   []string
}

var miniSeq int

func buildMini(r *Rand, forReq bool) *miniParser {
	mode := "src"
	if forReq {
		mode = "req"
	}
	return buildMiniMode(r, mode)
}

// modes: req (Required, commands), src (Default/env/initial content), doc (Hidden, Description, DefaultMask, commands), plain
func buildMiniMode(r *Rand, mode string) *miniParser {
	forReq := mode == "req"
	m := &miniParser{}
	po := []flags.Options{flags.None, flags.PassDoubleDash, flags.HelpFlag, flags.IgnoreUnknown}[r.Intn(4)]
	if (mode == "doc" || mode == "comp") && po == flags.HelpFlag {
		po = flags.None
	}
	m.P = flags.NewNamedParser("mini", po)
	m.Desc = append(m.Desc, "NewNamedParser(\"mini\", "+optionsString(po)+")")
	var grp *flags.Group
	gEnvNS, gNS := "", ""
	if r.Chance(2, 3) {
		grp, _ = m.P.AddGroup("Extra", "", &struct{}{})
		if r.Bool() {
			gEnvNS = "GNS"
			grp.EnvNamespace = gEnvNS
		}
		if r.Bool() {
			gNS = "ns"
			grp.Namespace = gNS
		}
		m.Desc = append(m.Desc, fmt.Sprintf("AddGroup(\"Extra\") Namespace=%q EnvNamespace=%q", gNS, gEnvNS))
	}
	var cmd *flags.Command
	if (forReq || mode == "doc" || mode == "comp") && r.Bool() {
		cmd, _ = m.P.AddCommand("run", "", "", &struct{}{})
		m.P.SubcommandsOptional = true
		m.HasCmd = true
		m.Desc = append(m.Desc, "AddCommand(\"run\"), SubcommandsOptional")
	}
	if r.Chance(1, 4) {
		// the program has used the parser once before it registers the options (a plug-in loaded late)
		safely(func() { m.P.ParseArgs(nil) })
		m.P.Active = nil
		m.Desc = append(m.Desc, "ParseArgs(nil) before the options are added")
	}
	n := r.Range(1, 3)
	twin := false
	kinds := []string{"int", "string", "strs", "map", "dur", "float"}
	for i := 0; i < n; i++ {
		miniSeq++
		a := &apiOpt{Long: fmt.Sprintf("xadd%d", i+1), Kind: kinds[r.Intn(len(kinds))]}
		if r.Chance(1, 3) {
			a.Short = apiShorts[i]
		}
		mo := &miniOpt{apiOpt: a}
		a.Ptr = apiVar(a.Kind)
		if forReq {
			mo.Required = r.Chance(2, 3)
		} else if mode == "doc" || mode == "comp" {
			mo.Hidden = r.Chance(1, 3)
			if mode == "comp" && r.Chance(1, 3) {
				// short name only
				a.Long = ""
				a.Short = apiShorts[i]
			}
			if mode == "doc" && r.Chance(1, 4) {
				mo.Mask = true // a mask without Default tags: it stands for whatever the variable holds
			}
			if a.Kind == "string" && r.Bool() {
				a.Default = []string{"s3cr3t"}
				if mo.Mask || r.Bool() {
					mo.Mask = true
					a.Default = []string{"s3cr3t-" + a.Long}
				}
			} else if a.Kind == "int" && r.Bool() {
				a.Default = []string{"4711"}
			}
		} else if mode == "src" {
			if r.Bool() {
				switch a.Kind {
				case "string":
					a.Default = []string{"dflt"}
				case "strs":
					a.Default = []string{"d1", "d2"}
				case "map":
					a.Default = []string{"k:1"}
				case "dur":
					a.Default = []string{"3s"}
				case "float":
					a.Default = []string{"1.5"}
				default:
					a.Default = []string{"7"}
				}
			}
			if (a.Kind == "strs" || a.Kind == "map") && r.Bool() {
				a.Init = true
				if a.Kind == "strs" {
					a.Ptr.Elem().Set(reflect.ValueOf([]string{"old"}))
				} else {
					a.Ptr.Elem().Set(reflect.ValueOf(map[string]int{"old": 9}))
				}
			}
			if r.Chance(2, 3) {
				mo.EnvKey = fmt.Sprintf("VH_XADD_%d", i+1)
				if (a.Kind == "strs" || a.Kind == "map") && r.Bool() {
					mo.EnvDelim = []string{",", ";;"}[r.Intn(2)]
				}
			}
		}
		if mode == "plain" && i == 1 && gNS != "" && m.Opts[0].Home == "group Extra" && r.Chance(2, 3) {
			a.Long = "xadd1" // the same long name as the first option: they must end up in different name spaces
			twin = true
		}
		a.FO = &flags.Option{LongName: a.Long, ShortName: a.Short, Default: a.Default, Required: mo.Required, EnvDefaultKey: mo.EnvKey, EnvDefaultDelim: mo.EnvDelim}
		if mode == "doc" || mode == "comp" {
			a.FO.Description = fmt.Sprintf("about-%s", a.Long)
			a.FO.Hidden = mo.Hidden
			if mo.Mask {
				a.FO.DefaultMask = "MASKED"
			}
		}
		m.Cmd = cmd
		mo.EnvFull = mo.EnvKey
		a.Full = a.Long
		x := r.Intn(3)
		switch {
		case twin && i == 1:
			// a second group without namespace, registered after the namespaced one
			other, _ := m.P.AddGroup("Other", "", &struct{}{})
			other.AddOption(a.FO, a.Ptr.Interface())
			a.Home = "group Other"
		case x == 1 && grp != nil:
			grp.AddOption(a.FO, a.Ptr.Interface())
			a.Home = "group Extra"
			if gEnvNS != "" && mo.EnvKey != "" {
				mo.EnvFull = gEnvNS + "_" + mo.EnvKey
			}
			if gNS != "" && a.Long != "" {
				a.Full = gNS + "." + a.Long
			}
		case x == 2 && cmd != nil:
			cmd.AddOption(a.FO, a.Ptr.Interface())
			a.Home = "command run"
			mo.CmdHome = true
		default:
			m.P.AddOption(a.FO, a.Ptr.Interface())
			a.Home = "parser"
		}
		d := a.describe()
		if mo.Required {
			d += " Required"
		}
		if mo.Hidden {
			d += " Hidden"
		}
		if mo.Mask {
			d += " DefaultMask=MASKED"
		}
		if mo.EnvKey != "" {
			d += fmt.Sprintf(" EnvDefaultKey=%q EnvDefaultDelim=%q (variable %s)", mo.EnvKey, mo.EnvDelim, mo.EnvFull)
		}
		m.Desc = append(m.Desc, d)
		m.Opts = append(m.Opts, mo)
	}
	return m
}

func (m *miniParser) apiOpts() []*apiOpt {
	var r []*apiOpt
	for _, o := range m.Opts {
		r = append(r, o.apiOpt)
	}
	return r
}

// canonOf: the canonical text of the value that the given texts denote for kind k (nil texts = "nothing")
func canonTexts(kind string, texts []string) string {
	switch kind {
	case "strs":
		var ds []string
		for _, t := range texts {
			ds = append(ds, denoteText(t))
		}
		return fmt.Sprintf("%q", ds)
	case "map":
		mm := map[string]int{}
		for _, t := range texts {
			kv := strings.SplitN(t, ":", 2)
			var n int
			fmt.Sscanf(kv[1], "%d", &n)
			mm[kv[0]] = n
		}
		return canonIntMap(mm)
	}
	v := texts[len(texts)-1]
	switch kind {
	case "int", "u8":
		var n int64
		fmt.Sscanf(v, "%d", &n)
		return fmt.Sprint(n)
	case "float":
		var f float64
		fmt.Sscanf(v, "%g", &f)
		return fmt.Sprint(f)
	case "dur":
		dv, _ := time.ParseDuration(v)
		return dv.String()
	}
	return fmt.Sprintf("%q", denoteText(v))
}

// apiMiniSources (C05): command line > environment > Default > what the program stored.
func apiMiniSources(c *Ctx) {
	r := c.Sub("api-mini")
	m := buildMini(r, false)
	want := map[*apiOpt]string{}
	src := ""
	var args []string
	for _, o := range m.Opts {
		if o.EnvKey != "" && r.Chance(2, 3) {
			n := 1
			if o.EnvDelim != "" {
				n = r.Range(1, 3)
			}
			for i := 0; i < n; i++ {
				vs := apiGood[o.Kind]
				v := vs[r.Intn(len(vs))]
				for v == "" || v[0] == '"' {
					v = vs[r.Intn(len(vs))]
				}
				o.EnvVals = append(o.EnvVals, v)
			}
			key, val := o.EnvFull, strings.Join(o.EnvVals, o.EnvDelim)
			os.Setenv(key, val)
			c.Defer(func() { os.Unsetenv(key) })
			m.Desc = append(m.Desc, fmt.Sprintf("environment %s=%q", key, val))
		}
		var cli []string
		if r.Chance(1, 2) {
			for i, n := 0, r.Range(1, 2); i < n; i++ {
				v := apiGood[o.Kind][r.Intn(len(apiGood[o.Kind]))]
				cli = append(cli, v)
				name := "--" + o.Full
				if o.Short != 0 && r.Bool() {
					name = "-" + string(o.Short)
				}
				args = append(args, name+"="+v)
			}
		}
		switch {
		case cli != nil:
			want[o.apiOpt] = canonTexts(o.Kind, cli)
			src += "cli,"
		case o.EnvVals != nil:
			want[o.apiOpt] = canonTexts(o.Kind, o.EnvVals)
			src += "env,"
		default:
			// Default, else untouched: unsetWant
			if len(o.Default) > 0 {
				src += "default,"
			} else {
				src += "initial,"
			}
		}
	}
	for i := len(args) - 1; i > 0; i-- {
		j := r.Intn(i + 1)
		args[i], args[j] = args[j], args[i]
	}
	c.Case(func() interface{} {
		return map[string]interface{}{"program": m.Desc, "argv": fmt.Sprintf("%q", args)}
	})
	var err error
	pi := safely(func() { _, err = m.P.ParseArgs(args) })
	c.Count("parses", 1)
	if pi != nil {
		c.Violate("api-added-option:panic:"+panicSite(pi.Stack), "ParseArgs panicked: %s", pi.Value)
		return
	}
	if err != nil {
		c.Violate("api-added-option:valid-vector-rejected:"+errTypeName(err), "valid vector rejected: %v", err)
		return
	}
	// (shuffling the vector changes the order between options, not between the occurrences of one slice/map option
	// in a way the canonical text could see: recompute in vector order)
	for _, o := range m.Opts {
		var cli []string
		for _, t := range args {
			i := strings.Index(t, "=")
			if t[:i] == "--"+o.Full || (o.Short != 0 && t[:i] == "-"+string(o.Short)) {
				cli = append(cli, t[i+1:])
			}
		}
		if cli != nil {
			want[o.apiOpt] = canonTexts(o.Kind, cli)
		}
	}
	if sig, msg := apiCompare(m.apiOpts(), want, true); sig != "" {
		c.Violate("source:"+sig, "%s", msg)
		return
	}
	c.Held("api-added/sources", src)
}

// apiMiniRequired (C06): a missing required added option is demanded by name, a supplied one is not, and one that
// belongs to a command that was not selected is not.
func apiMiniRequired(c *Ctx) {
	r := c.Sub("api-mini")
	m := buildMini(r, true)
	var args, cmdArgs []string
	useCmd := m.HasCmd && r.Bool()
	missing := map[*miniOpt]bool{}
	shape := ""
	for _, o := range m.Opts {
		supplied := r.Bool()
		if o.CmdHome && !useCmd {
			supplied = false // its name is unknown outside the command
		}
		if supplied {
			name := "--" + o.Full
			if o.Short != 0 && r.Bool() {
				name = "-" + string(o.Short)
			}
			vs := apiGood[o.Kind]
			v := vs[r.Intn(len(vs))]
			t := []string{name + "=" + v}
			if v != "" && v[0] != '-' && r.Chance(1, 3) {
				t = []string{name, v}
			}
			if o.CmdHome {
				cmdArgs = append(cmdArgs, t...)
			} else if useCmd && r.Bool() {
				cmdArgs = append(cmdArgs, t...) // options of the parser stay valid after the command word
			} else {
				args = append(args, t...)
			}
		}
		if o.Required && !supplied && (!o.CmdHome || useCmd) {
			missing[o] = true
		}
		shape += fmt.Sprintf("%v/%v/%v,", o.Required, supplied, o.CmdHome)
	}
	if useCmd {
		args = append(append(args, "run"), cmdArgs...)
	}
	c.Case(func() interface{} {
		return map[string]interface{}{"program": m.Desc, "argv": fmt.Sprintf("%q", args)}
	})
	var err error
	pi := safely(func() { _, err = m.P.ParseArgs(args) })
	c.Count("parses", 1)
	if pi != nil {
		c.Violate("api-added-option:panic:"+panicSite(pi.Stack), "ParseArgs panicked: %s", pi.Value)
		return
	}
	if len(missing) == 0 {
		if err != nil {
			c.Violate("api-added-option:nothing-missing-but-rejected:"+errTypeName(err), "every required option was supplied, yet: %v", err)
			return
		}
		c.Held("api-added/required/none-missing", shape)
		return
	}
	fe, ok := err.(*flags.Error)
	if err == nil {
		c.Violate("api-added-option:missing-required-accepted", "%d required option(s) not supplied but the parse succeeded", len(missing))
		return
	}
	if !ok || fe.Type != flags.ErrRequired {
		c.Violate("api-added-option:required:wrong-error:"+errTypeName(err), "required option missing, error is %v", err)
		return
	}
	for _, o := range m.Opts {
		named := strings.Contains(fe.Message, "--"+o.Full+"'")
		if named != missing[o] {
			c.Violate(fmt.Sprintf("api-added-option:required:message:named=%v", named), "option --%s: missing=%v but the message is %q", o.Full, missing[o], fe.Message)
			return
		}
	}
	c.Held("api-added/required/missing", shape)
}

// apiMiniDoc (C16): help and man page list exactly the visible added options; a masked default never shows.
func apiMiniDoc(c *Ctx) {
	r := c.Sub("api-mini")
	m := buildMiniMode(r, "doc")
	active := m.Cmd != nil && r.Bool()
	if active {
		m.P.Active = m.Cmd
		m.Desc = append(m.Desc, "Active = run")
	}
	c.Case(func() interface{} { return map[string]interface{}{"program": m.Desc} })
	var hb, mb strings.Builder
	pi := safely(func() { m.P.WriteHelp(&hb); m.P.WriteManPage(&mb) })
	c.Count("documents", 2)
	if pi != nil {
		c.Violate("api-added-option:panic:"+panicSite(pi.Stack), "writing help / man page panicked: %s", pi.Value)
		return
	}
	help, man := hb.String(), mb.String()
	shape := ""
	for _, o := range m.Opts {
		for gi, doc := range []string{help, man} {
			gen := []string{"help", "man"}[gi]
			if gen == "help" && o.CmdHome && !active {
				continue // not on the active chain: not judged
			}
			long := "--" + o.Full
			if gen == "man" {
				long = "\\-\\-" + strings.ReplaceAll(o.Full, "-", "\\-")
			}
			has := strings.Contains(doc, long)
			hasDesc := strings.Contains(doc, "about-"+o.Long) || strings.Contains(doc, "about\\-"+o.Long)
			if o.Hidden && (has || hasDesc) {
				c.Violate("api-added-option:"+gen+":hidden-shown", "hidden option --%s appears in the %s", o.Full, gen)
				c.Note("document", clip(doc, 3000))
				return
			}
			if !o.Hidden && (!has || !hasDesc) {
				c.Violate("api-added-option:"+gen+":visible-missing", "visible option --%s (name found=%v, description found=%v) in the %s", o.Full, has, hasDesc, gen)
				c.Note("document", clip(doc, 3000))
				return
			}
			if o.Mask && strings.Contains(doc, "s3cr3t-"+o.Long) {
				c.Violate("api-added-option:"+gen+":masked-default-shown", "the real default of --%s appears in the %s although DefaultMask is set", o.Full, gen)
				c.Note("document", clip(doc, 3000))
				return
			}
			if !o.Hidden && !o.Mask && len(o.Default) > 0 && !strings.Contains(doc, o.Default[0]) {
				c.Violate("api-added-option:"+gen+":default-missing", "the default %q of --%s does not appear in the %s", o.Default[0], o.Full, gen)
				c.Note("document", clip(doc, 3000))
				return
			}
			if !o.Hidden && o.Mask && !strings.Contains(doc, "MASKED") {
				c.Violate("api-added-option:"+gen+":mask-missing", "the default-mask of --%s does not appear in the %s", o.Full, gen)
				c.Note("document", clip(doc, 3000))
				return
			}
		}
		shape += fmt.Sprintf("%v/%v/%s,", o.Hidden, o.Mask, o.Home)
	}
	c.Held("api-added/doc", shape)
}

// apiMiniComplete (C18): a partial long name or a bare dash yields exactly the visible options in scope.
func apiMiniComplete(c *Ctx) {
	r := c.Sub("api-mini")
	if r.Chance(1, 5) {
		apiMiniTwinWord(c, r)
		return
	}
	m := buildMiniMode(r, "comp")
	var args []string
	inCmd := m.Cmd != nil && r.Bool()
	if inCmd {
		args = append(args, "run")
	}
	partial := []string{"--", "-", "--x", "--xadd", "--ns", "--ns.x", "--xadd1", "--q"}[r.Intn(8)]
	args = append(args, partial)
	c.Case(func() interface{} { return map[string]interface{}{"program": m.Desc, "typed": fmt.Sprintf("%q", args)} })
	var want []string
	pre := partial
	if pre == "-" {
		pre = "--"
	}
	for _, o := range m.Opts {
		if o.Hidden || (o.CmdHome && !inCmd) {
			continue
		}
		if o.Full == "" {
			// a short-only option is offered by its short name, for the bare dash only
			if partial == "-" {
				want = append(want, "-"+string(o.Short))
			}
			continue
		}
		if strings.HasPrefix("--"+o.Full, pre) {
			want = append(want, "--"+o.Full)
		}
	}
	sort.Strings(want)
	got, calls, pi := c18Complete(&Built{P: m.P}, args)
	c.Count("completions", 1)
	if pi != nil {
		c.Violate("api-added-option:panic:"+panicSite(pi.Stack), "completion panicked: %s", pi.Value)
		return
	}
	if calls != 1 {
		c.Violate("api-added-option:handler-calls", "the completion handler was called %d times", calls)
		return
	}
	items := itemsOf(got)
	if fmt.Sprintf("%q", items) != fmt.Sprintf("%q", want) {
		c.Violate("api-added-option:completion-list", "typed %q: offered %q, the visible options in scope with that prefix are %q", args, items, want)
		return
	}
	c.Held("api-added/complete", fmt.Sprintf("%s n=%d cmd=%v", partial, len(want), inCmd))
}

// apiMiniIniVsFlag (C13): `name = value` entries mean what --name=value occurrences mean.
func apiMiniIniVsFlag(c *Ctx) {
	seedR := c.Sub("api-mini")
	salt := seedR.Intn(1 << 30)
	ma := buildMiniMode(NewRand("C13mini", c.Seed, c.K, uint64(salt)), "plain")
	mb := buildMiniMode(NewRand("C13mini", c.Seed, c.K, uint64(salt)), "plain")
	r := c.Sub("api-mini-vec")
	var args, lines []string
	section := ""
	asDefaults := r.Bool()
	for i, n := 0, r.Range(1, 4); i < n; i++ {
		j := r.Intn(len(ma.Opts))
		o := ma.Opts[j]
		if o.Kind == "bool" {
			continue
		}
		v := apiGood[o.Kind][r.Intn(len(apiGood[o.Kind]))]
		name := o.Full
		if o.Short != 0 && r.Bool() {
			name = string(o.Short)
		}
		args = append(args, "--"+o.Full+"="+v)
		lines = append(lines, name+" = "+v)
	}
	text := section + strings.Join(lines, "\n") + "\n"
	c.Case(func() interface{} {
		return map[string]interface{}{"program": ma.Desc, "argv": fmt.Sprintf("%q", args), "ini": text, "ParseAsDefaults": asDefaults}
	})
	var ea, eb error
	pa := safely(func() { _, ea = ma.P.ParseArgs(args) })
	pb := safely(func() {
		ip := flags.NewIniParser(mb.P)
		ip.ParseAsDefaults = asDefaults
		eb = ip.Parse(strings.NewReader(text))
	})
	c.Count("files_parsed", 1)
	if pa != nil || pb != nil {
		c.Violate("api-added-option:panic", "panic: argv %v ini %v", pa, pb)
		return
	}
	if ea != nil || eb != nil {
		c.Violate("api-added-option:rejected", "valid input rejected: argv: %v; ini: %v", ea, eb)
		return
	}
	for j, o := range ma.Opts {
		if ga, gb := o.current(), mb.Opts[j].current(); ga != gb {
			c.Violate("api-added-option:ini-vs-flag:"+o.Kind, "%s: the command line %q stores %s, the file %q stores %s", o.describe(), args, ga, text, gb)
			return
		}
	}
	c.Held("api-added/ini-vs-flag", fmt.Sprintf("n=%d asDefaults=%v", len(lines), asDefaults))
}

// apiMiniConvert (C11): the text given to an added numeric / duration option is converted exactly or rejected.
func apiMiniConvert(c *Ctx) {
	r := c.Sub("api-mini")
	kinds := []struct {
		name string
		k    TK
	}{{"int", KInt}, {"u8", KUint8}, {"float", KFloat64}, {"dur", KDuration}}
	kd := kinds[r.Intn(len(kinds))]
	a := &apiOpt{Long: "xadd1", Kind: kd.name, Full: "xadd1", Home: "parser"}
	a.Ptr = apiVar(a.Kind)
	p := flags.NewNamedParser("mini", flags.None)
	a.FO = &flags.Option{LongName: a.Long}
	var choices []string
	txt := GenScalarText(r, kd.k, 10, 0)
	if kd.name == "int" && r.Chance(1, 3) {
		choices = []string{"5", "-3", "0x10", "12"}
		a.FO.Choices = choices
		if r.Bool() {
			txt = choices[r.Intn(len(choices))]
		}
	}
	if r.Bool() {
		g, _ := p.AddGroup("Extra", "", &struct{}{})
		g.Namespace = "ns"
		g.AddOption(a.FO, a.Ptr.Interface())
		a.Full, a.Home = "ns.xadd1", "group Extra"
	} else {
		p.AddOption(a.FO, a.Ptr.Interface())
	}
	args := []string{"--" + a.Full + "=" + txt}
	negNumber := len(txt) > 1 && txt[0] == '-' && txt[1] >= '0' && txt[1] <= '9' && kd.name != "u8"
	if txt != "" && (txt[0] != '-' || negNumber) && r.Bool() {
		// (an option of a signed numeric type takes a following "-<digit>..." token as its argument)
		args = []string{"--" + a.Full, txt}
	}
	c.Case(func() interface{} {
		return map[string]interface{}{"program": a.describe(), "choices": choices, "argv": fmt.Sprintf("%q", args)}
	})
	if len(txt) >= 2 && txt[0] == '"' {
		c.Unspec("quoted text")
		return
	}
	ref := RefScalar(kd.k, 10, txt)
	var err error
	pi := safely(func() { _, err = p.ParseArgs(args) })
	c.Count("parses", 1)
	if pi != nil {
		c.Violate("api-added-option:panic:"+panicSite(pi.Stack), "ParseArgs panicked: %s", pi.Value)
		return
	}
	fe, _ := err.(*flags.Error)
	if choices != nil {
		in := false
		for _, ch := range choices {
			in = in || ch == txt
		}
		if !in {
			if fe == nil || fe.Type != flags.ErrInvalidChoice {
				c.Violate("api-added-option:non-choice:"+errTypeName(err), "%q is not one of the choices %q: %v", txt, choices, err)
				return
			}
			for _, ch := range choices {
				if !strings.Contains(fe.Message, ch) {
					c.Violate("api-added-option:choice-message", "the message %q does not list the allowed value %q", fe.Message, ch)
					return
				}
			}
			c.Held("api-added/convert/non-choice", kd.name)
			return
		}
	}
	cell := "api-added/convert/" + kd.name + "/" + ref.Cls.String()
	switch {
	case err == nil:
		if ref.Cls == MustReject {
			c.Violate("api-added-option:accepted:"+kd.name, "%q does not denote a value of the type (%s) but was accepted; stored %v", txt, ref.Why, a.Ptr.Elem().Interface())
			return
		}
		if ref.HasVal && fmt.Sprintf("%v", ref.Val.Interface()) != fmt.Sprintf("%v", a.Ptr.Elem().Interface()) {
			c.Violate("api-added-option:wrong-value:"+kd.name, "%q denotes %v, stored %v", txt, ref.Val.Interface(), a.Ptr.Elem().Interface())
			return
		}
	default:
		if ref.Cls == MustAccept {
			c.Violate("api-added-option:rejected:"+kd.name, "%q denotes %v but was rejected: %v", txt, ref.Val.Interface(), err)
			return
		}
		if fe == nil || fe.Type != flags.ErrMarshal {
			c.Violate("api-added-option:reject-type:"+errTypeName(err), "%q rejected with %v instead of ErrMarshal", txt, err)
			return
		}
		if !strings.Contains(fe.Message, "--"+a.Full) {
			c.Violate("api-added-option:reject-message", "the message %q does not identify the option --%s", fe.Message, a.Full)
			return
		}
	}
	c.Held(cell, fmt.Sprintf("len=%d", minInt(len(txt), 12)))
}

// apiMiniRoundTrip (C12): the values of added options survive Write + Parse into an identical fresh parser.
func apiMiniRoundTrip(c *Ctx) {
	seedR := c.Sub("api-mini")
	salt := seedR.Intn(1 << 30)
	ma := buildMiniMode(NewRand("C12mini", c.Seed, c.K, uint64(salt)), "plain")
	mb := buildMiniMode(NewRand("C12mini", c.Seed, c.K, uint64(salt)), "plain")
	r := c.Sub("api-mini-vec")
	var args []string
	for i, n := 0, r.Range(0, 4); i < n; i++ {
		o := ma.Opts[r.Intn(len(ma.Opts))]
		args = append(args, "--"+o.Full+"="+apiGood[o.Kind][r.Intn(len(apiGood[o.Kind]))])
	}
	wo := flags.IniOptions(r.Intn(8))
	c.Case(func() interface{} {
		return map[string]interface{}{"program": ma.Desc, "argv_that_sets_the_values": fmt.Sprintf("%q", args), "IniOptions": int(wo)}
	})
	var ea, eb error
	var sb strings.Builder
	pa := safely(func() {
		_, ea = ma.P.ParseArgs(args)
		flags.NewIniParser(ma.P).Write(&sb, wo)
	})
	text := sb.String()
	c.Note("ini", clip(text, 2000))
	if pa != nil {
		c.Violate("api-added-option:panic:"+panicSite(pa.Stack), "parse / Write panicked: %s", pa.Value)
		return
	}
	if ea != nil {
		c.Violate("api-added-option:rejected", "valid vector rejected: %v", ea)
		return
	}
	pb := safely(func() { eb = flags.NewIniParser(mb.P).Parse(strings.NewReader(text)) })
	c.Count("documents", 1)
	if pb != nil {
		c.Violate("api-added-option:panic:"+panicSite(pb.Stack), "reading the written text panicked: %s", pb.Value)
		return
	}
	if eb != nil {
		c.Violate("api-added-option:written-text-unreadable", "the text written for a parser with added options is rejected by the reader: %v", eb)
		return
	}
	for j, o := range ma.Opts {
		if ga, gb := o.current(), mb.Opts[j].current(); ga != gb {
			c.Violate("api-added-option:round-trip:"+o.Kind, "%s: held %s when written, holds %s after reading", o.describe(), ga, gb)
			return
		}
	}
	c.Held("api-added/round-trip", fmt.Sprintf("opts=%d n=%d", int(wo), len(args)))
}

// apiMiniTwinWord (C18): one word designates two sibling commands (an alias of one equals the name or an alias of
// the other). The statement does not say which one the word selects, but completion must continue in the command
// context the parser's own parse of the same prefix reaches.
func apiMiniTwinWord(c *Ctx, r *Rand) {
	variant := r.Intn(4)
	build := func() (*flags.Parser, []string) {
		p := flags.NewNamedParser("mini", flags.PassDoubleDash)
		var desc []string
		mk := func(name string, aliases []string, opt string) {
			cm, _ := p.AddCommand(name, "", "", &struct{}{})
			cm.Aliases = aliases
			cm.AddOption(&flags.Option{LongName: opt}, new(string))
			desc = append(desc, fmt.Sprintf("AddCommand(%q) Aliases=%q with added option --%s", name, aliases, opt))
		}
		switch variant {
		case 0:
			mk("list", []string{"ls"}, "of-list")
			mk("ls", nil, "of-ls")
		case 1:
			mk("ls", nil, "of-ls")
			mk("list", []string{"ls"}, "of-list")
		case 2:
			mk("remove", []string{"rm", "ls"}, "of-remove")
			mk("list", []string{"ls"}, "of-list")
		default:
			mk("list", []string{"l", "ls"}, "of-list")
			mk("other", nil, "of-other")
			mk("ls", []string{"dir"}, "of-ls")
		}
		return p, desc
	}
	p1, desc := build()
	p2, _ := build()
	c.Case(func() interface{} { return map[string]interface{}{"program": desc, "typed": `["ls" "--"]`} })
	var err error
	pi := safely(func() { _, err = p1.ParseArgs([]string{"ls"}) })
	if pi != nil || err != nil || p1.Active == nil {
		c.Unspec("the parser does not accept the doubly registered word")
		return
	}
	reached := p1.Active.Name
	want := "--of-" + reached
	got, calls, pi := c18Complete(&Built{P: p2}, []string{"ls", "--"})
	c.Count("completions", 1)
	if pi != nil {
		c.Violate("api-added-option:panic:"+panicSite(pi.Stack), "completion panicked: %s", pi.Value)
		return
	}
	items := itemsOf(got)
	if calls != 1 || len(items) != 1 || items[0] != want {
		c.Violate("twin-command-word:other-context", "the parser's parse of [ls] reaches command %q, completion of [ls --] offers %q (handler calls: %d), expected [%s]", reached, items, calls, want)
		return
	}
	c.Held("api-added/complete/twin-word", fmt.Sprintf("variant=%d reached=%s", variant, reached))
}
