package main

import (
	"bytes"
	"encoding/binary"
	"encoding/json"
	"fmt"
	"os"
	"os/exec"
	"path/filepath"
	"runtime"
	"sort"
	"strconv"
	"strings"
	"sync"
	"syscall"
	"time"
)

// ---------------------------------------------------------------------------
// Orchestrator: cuts [0,N) into batches, one child process per batch.
// ---------------------------------------------------------------------------

const batchWatchdog = 300 * time.Second // generous (a batch needs < 2 s); converts to "inconclusive", never a verdict by itself
const singleWatchdog = 60 * time.Second // >= 10^5 x the cost of one case
const maxDeaths = 3                     // after this many confirmed child deaths/hangs no further batches are started

func verifRoot() string {
	if r := os.Getenv("VERIF_ROOT"); r != "" {
		return r
	}
	exe, err := os.Executable()
	if err == nil {
		d := filepath.Dir(filepath.Dir(exe))
		if _, err := os.Stat(filepath.Join(d, "properties.jsonl")); err == nil {
			return d
		}
	}
	return "/verif"
}

type runResult struct {
	agg        *WorkerOut
	shapes     map[uint64]struct{}
	deaths     []Viol // confirmed process deaths / hangs
	inconcl    []string
	raceReport int
	raceCases  int64
	aborted    bool // stopped early after maxDeaths confirmed child deaths
}

func envSeed() int64 {
	if s := os.Getenv("VERIF_SEED"); s != "" {
		if v, err := strconv.ParseInt(s, 10, 64); err == nil {
			return v
		}
	}
	return 1
}

func runProperty(id, tier string) int {
	p := registry[id]
	if p == nil {
		fmt.Fprintf(os.Stderr, "unknown property %s\n", id)
		return 2
	}
	start := time.Now()
	seed := envSeed()
	root := verifRoot()
	scratch := filepath.Join(root, ".scratch", fmt.Sprintf("%s-%d", id, os.Getpid()))
	os.MkdirAll(scratch, 0o755)
	defer os.RemoveAll(scratch)

	n := p.Cases(tier)
	batch := p.Batch
	if batch == 0 {
		batch = n / int64(runtime.NumCPU()*4)
		if batch < 50 {
			batch = 50
		}
		if batch > 20000 {
			batch = 20000
		}
	}
	type job struct{ lo, hi int64 }
	var jobs []job
	for lo := int64(0); lo < n; lo += batch {
		hi := lo + batch
		if hi > n {
			hi = n
		}
		jobs = append(jobs, job{lo, hi})
	}

	res := &runResult{agg: newWorkerOut(0, n), shapes: map[uint64]struct{}{}}
	var mu sync.Mutex
	sem := make(chan struct{}, runtime.NumCPU())
	var wg sync.WaitGroup
	exe, _ := os.Executable()
	for ji, j := range jobs {
		wg.Add(1)
		sem <- struct{}{}
		go func(ji int, j job) {
			defer wg.Done()
			defer func() { <-sem }()
			lo := j.lo
			for lo < j.hi {
				mu.Lock()
				stop := len(res.deaths) >= maxDeaths
				mu.Unlock()
				if stop {
					mu.Lock()
					res.aborted = true
					mu.Unlock()
					return
				}
				out, culprit, why := spawnWorker(exe, scratch, fmt.Sprintf("b%d-%d", ji, lo), id, tier, seed, lo, j.hi, batchWatchdog)
				mu.Lock()
				if out != nil {
					mergeOut(res, out)
				}
				mu.Unlock()
				if out != nil && out.Done {
					break
				}
				if culprit < 0 {
					mu.Lock()
					res.inconcl = append(res.inconcl, fmt.Sprintf("batch [%d,%d) died without a journal entry: %s", lo, j.hi, why))
					mu.Unlock()
					break
				}
				// The child died or hung in case `culprit`. Re-run that single case alone.
				_, c2, why2 := spawnWorker(exe, scratch, fmt.Sprintf("s%d-%d", ji, culprit), id, tier, seed, culprit, culprit+1, singleWatchdog)
				mu.Lock()
				if c2 >= 0 {
					res.deaths = append(res.deaths, Viol{K: culprit, Sig: "process-death", Msg: fmt.Sprintf("child process died or hung in this case (batch: %s; alone: %s)", why, why2)})
				} else {
					res.inconcl = append(res.inconcl, fmt.Sprintf("case %d killed its batch (%s) but passed alone", culprit, why))
				}
				mu.Unlock()
				// continue the rest of the batch after the culprit; cases [lo,culprit) are re-run from
				// scratch only if the first child left no output (it writes output at the very end).
				if out == nil {
					if culprit > lo {
						o2, _, _ := spawnWorker(exe, scratch, fmt.Sprintf("r%d-%d", ji, lo), id, tier, seed, lo, culprit, batchWatchdog)
						mu.Lock()
						if o2 != nil {
							mergeOut(res, o2)
						}
						mu.Unlock()
					}
				}
				lo = culprit + 1
			}
		}(ji, j)
	}
	wg.Wait()

	// optional -race pass (thorough only)
	if tier == "thorough" && p.RaceCases > 0 {
		runRacePass(root, scratch, id, seed, p, res)
	}
	return conclude(root, p, tier, seed, res, time.Since(start))
}

func mergeOut(res *runResult, o *WorkerOut) {
	a := res.agg
	a.Evaluations += o.Evaluations
	a.Held += o.Held
	a.Unspec += o.Unspec
	a.Trivial += o.Trivial
	a.Violated += o.Violated
	for k, v := range o.Cells {
		a.Cells[k] += v
	}
	for k, v := range o.Counters {
		if strings.HasSuffix(k, "_max") {
			if v > a.Counters[k] {
				a.Counters[k] = v
			}
			continue
		}
		a.Counters[k] += v
	}
	for k, v := range o.UnspecReasons {
		a.UnspecReasons[k] += v
	}
	for k, v := range o.ViolBySig {
		a.ViolBySig[k] += v
	}
	for _, h := range o.Shapes {
		res.shapes[h] = struct{}{}
	}
	a.Samples = append(a.Samples, o.Samples...)
	a.Violations = append(a.Violations, o.Violations...)
	if o.Broken != "" && a.Broken == "" {
		a.Broken = o.Broken
	}
	for k, v := range o.Digests {
		if a.Digests == nil {
			a.Digests = map[string]string{}
		}
		if old, ok := a.Digests[k]; ok && old != v {
			parts := strings.SplitN(k, "/", 3)
			kindName := parts[0]
			if len(parts) == 3 {
				kindName = parts[1]
			}
			sig := "nondeterministic-across-processes:" + kindName
			a.Violated++
			a.ViolBySig[sig]++
			if a.ViolBySig[sig] <= 2 {
				a.Violations = append(a.Violations, Viol{K: -1, Sig: sig, Msg: fmt.Sprintf("scenario %s produced digest %s in one process and %s in another", k, old, v)})
			}
		} else {
			a.Digests[k] = v
		}
		a.Counters["cross_process_digests_compared"]++
	}
}

// spawnWorker runs one child over [lo,hi). It returns the child's output (nil if none), and, if the
// child did not finish, the case index found in its journal (or -1).
func spawnWorker(exe, scratch, tag, id, tier string, seed, lo, hi int64, limit time.Duration) (*WorkerOut, int64, string) {
	outPath := filepath.Join(scratch, tag+".out")
	jPath := filepath.Join(scratch, tag+".j")
	logPath := filepath.Join(scratch, tag+".log")
	jb := make([]byte, 16)
	binary.LittleEndian.PutUint64(jb, ^uint64(0))
	os.WriteFile(jPath, jb, 0o644)
	cmd := exec.Command(exe, "worker", id, tier, strconv.FormatInt(seed, 10), strconv.FormatInt(lo, 10), strconv.FormatInt(hi, 10), outPath, jPath)
	lf, _ := os.Create(logPath)
	cmd.Stdout = lf
	cmd.Stderr = lf
	cmd.Stdin = nil
	cmd.Env = append(os.Environ(), "GOTRACEBACK=single")
	if err := cmd.Start(); err != nil {
		lf.Close()
		return nil, -1, "cannot start worker: " + err.Error()
	}
	done := make(chan error, 1)
	go func() { done <- cmd.Wait() }()
	var why string
	select {
	case err := <-done:
		if err != nil {
			why = "exit: " + err.Error()
		}
	case <-time.After(limit):
		cmd.Process.Signal(syscall.SIGKILL)
		<-done
		why = "watchdog " + limit.String()
	}
	lf.Close()
	var out *WorkerOut
	if b, err := os.ReadFile(outPath); err == nil {
		var o WorkerOut
		if json.Unmarshal(b, &o) == nil {
			out = &o
		}
	}
	if out != nil && out.Done {
		os.Remove(outPath)
		os.Remove(jPath)
		os.Remove(logPath)
		return out, -1, ""
	}
	culprit := int64(-1)
	if b, err := os.ReadFile(jPath); err == nil && len(b) >= 8 {
		v := binary.LittleEndian.Uint64(b)
		if v != ^uint64(0) {
			culprit = int64(v)
		}
	}
	if why == "" {
		why = "exit 0 without completing"
	}
	if lb, err := os.ReadFile(logPath); err == nil && len(lb) > 0 {
		t := string(lb)
		if len(t) > 1500 {
			t = t[:1500]
		}
		why += "; output: " + strings.ReplaceAll(t, "\n", " | ")
	}
	return out, culprit, why
}

func runRacePass(root, scratch, id string, seed int64, p *Property, res *runResult) {
	raceExe := filepath.Join(root, "bin", "vh-race")
	if e := os.Getenv("VERIF_RACE_EXE"); e != "" {
		raceExe = e
	}
	if _, err := os.Stat(raceExe); err != nil {
		res.inconcl = append(res.inconcl, "bin/vh-race missing: race pass not run")
		return
	}
	logBase := filepath.Join(scratch, "race.log")
	outPath := filepath.Join(scratch, "race.out")
	cmd := exec.Command(raceExe, "raceworker", id, strconv.FormatInt(seed, 10), strconv.FormatInt(p.RaceCases, 10), outPath)
	cmd.Env = append(os.Environ(), "GORACE=halt_on_error=0 log_path="+logBase)
	var buf bytes.Buffer
	cmd.Stdout = &buf
	cmd.Stderr = &buf
	done := make(chan error, 1)
	if err := cmd.Start(); err != nil {
		res.inconcl = append(res.inconcl, "race pass could not start: "+err.Error())
		return
	}
	go func() { done <- cmd.Wait() }()
	select {
	case <-done:
	case <-time.After(30 * time.Minute):
		cmd.Process.Signal(syscall.SIGKILL)
		<-done
		res.inconcl = append(res.inconcl, "race pass watchdog")
		return
	}
	if b, err := os.ReadFile(outPath); err == nil {
		var o WorkerOut
		if json.Unmarshal(b, &o) == nil && o.Done {
			res.raceCases = o.Evaluations
			// fold verdicts (they are the same oracles, run concurrently)
			o.Samples = nil
			ev := o.Evaluations
			mergeOut(res, &o)
			res.agg.Evaluations -= ev // reported separately
			res.agg.Counters["race_pass_cases"] += ev
		} else {
			res.inconcl = append(res.inconcl, "race pass produced no complete output: "+buf.String())
		}
	} else {
		res.inconcl = append(res.inconcl, "race pass produced no output: "+buf.String())
	}
	logs, _ := filepath.Glob(logBase + "*")
	seen := map[string]bool{}
	for _, l := range logs {
		b, _ := os.ReadFile(l)
		blocks := strings.Split(string(b), "WARNING: DATA RACE")
		for _, blk := range blocks[1:] {
			// dedupe by the set of go-flags frames with line numbers stripped
			key := raceKey(blk)
			if !seen[key] {
				seen[key] = true
				res.raceReport++
				res.deaths = append(res.deaths, Viol{K: -1, Sig: "data-race", Msg: "race detector report: " + firstLines(blk, 30)})
			}
		}
	}
}

func raceKey(blk string) string {
	var fr []string
	for _, ln := range strings.Split(blk, "\n") {
		ln = strings.TrimSpace(ln)
		if strings.Contains(ln, "go-flags") || strings.HasPrefix(ln, "github.com/jessevdk") {
			if i := strings.LastIndex(ln, ":"); i > 0 {
				ln = ln[:i]
			}
			fr = append(fr, ln)
		}
	}
	if len(fr) > 6 {
		fr = fr[:6]
	}
	return strings.Join(fr, "|")
}

func firstLines(s string, n int) string {
	ls := strings.Split(s, "\n")
	if len(ls) > n {
		ls = ls[:n]
	}
	return strings.Join(ls, "\n")
}

// ---------------------------------------------------------------------------
// Verdict, evidence, replay files
// ---------------------------------------------------------------------------

func conclude(root string, p *Property, tier string, seed int64, res *runResult, wall time.Duration) int {
	a := res.agg
	known := loadKnown(filepath.Join(root, "known_findings.json"))
	outRoot := root
	if o := os.Getenv("VERIF_OUT"); o != "" {
		outRoot = o // scratch runs against a patched copy of the library must not touch the real evidence
	}
	os.MkdirAll(filepath.Join(outRoot, "replay"), 0o755)
	os.MkdirAll(filepath.Join(outRoot, "evidence"), 0o755)

	exit := 0
	// violations by signature
	sigs := make([]string, 0, len(a.ViolBySig))
	for s := range a.ViolBySig {
		sigs = append(sigs, s)
	}
	sort.Strings(sigs)
	firstBySig := map[string]*Viol{}
	sort.Slice(a.Violations, func(i, j int) bool { return a.Violations[i].K < a.Violations[j].K })
	for i := range a.Violations {
		v := &a.Violations[i]
		if firstBySig[v.Sig] == nil {
			firstBySig[v.Sig] = v
		}
	}
	knownSeen := map[string]int64{}
	var knownOrder []string
	unlisted := 0
	for _, s := range sigs {
		if kf := matchKnown(known, p.ID, s); kf != nil {
			if knownSeen[kf.Match] == 0 {
				knownOrder = append(knownOrder, kf.Match)
			}
			knownSeen[kf.Match] += a.ViolBySig[s]
			continue
		}
		unlisted++
		if unlisted > 12 {
			continue
		}
		v := firstBySig[s]
		path := writeReplay(outRoot, p.ID, tier, seed, s, v, a.ViolBySig[s])
		fmt.Printf("VIOLATION property=%s replay=%s\n", p.ID, path)
		if v != nil {
			fmt.Printf("  sig=%s count=%d case=%d: %s\n", s, a.ViolBySig[s], v.K, v.Msg)
		}
		exit = 1
	}
	for _, m := range knownOrder {
		for _, kf := range known {
			if kf.Property == p.ID && kf.Match == m && kf.Status == "known" {
				fmt.Printf("KNOWN-FINDING: property=%s %s (match=%s, %d cases this run)\n", p.ID, kf.What, m, knownSeen[m])
				break
			}
		}
	}
	deathViol := 0
	deathSeen := map[string]int{}
	for i := range res.deaths {
		d := &res.deaths[i]
		isRace := d.Sig == "data-race"
		if isRace || p.DeathIsViolation {
			sig := d.Sig
			if !isRace && p.DeathClass != nil {
				sig = d.Sig + ":" + p.DeathClass(tier, seed, d.K)
			}
			deathSeen[sig]++
			if kf := matchKnown(known, p.ID, sig); kf != nil {
				if deathSeen[sig] == 1 {
					fmt.Printf("KNOWN-FINDING: property=%s %s (match=%s)\n", p.ID, kf.What, kf.Match)
				}
				continue
			}
			deathViol++
			exit = 1
			if deathSeen[sig] > 1 {
				continue // one report per class
			}
			path := writeReplay(outRoot, p.ID, tier, seed, sig, d, 1)
			fmt.Printf("VIOLATION property=%s replay=%s\n  sig=%s case=%d: %s\n", p.ID, path, sig, d.K, clip(d.Msg, 600))
		} else {
			res.inconcl = append(res.inconcl, fmt.Sprintf("case %d: %s", d.K, clip(d.Msg, 300)))
		}
	}

	distinct := int64(len(res.shapes))
	broken := a.Broken
	if broken == "" && len(res.inconcl) > 0 {
		broken = "inconclusive: " + strings.Join(res.inconcl, "; ")
	}
	if broken == "" && exit == 0 && distinct < p.MinNontrivial {
		broken = fmt.Sprintf("only %d distinct non-trivial cases observed (< floor %d): the workload no longer reaches the property", distinct, p.MinNontrivial)
	}
	if broken == "" && res.aborted {
		broken = fmt.Sprintf("stopped early after %d confirmed child deaths/hangs (%d of %d cases evaluated)", len(res.deaths), a.Evaluations, p.Cases(tier))
	}
	if broken == "" && a.Evaluations != p.Cases(tier) {
		broken = fmt.Sprintf("evaluated %d of %d cases", a.Evaluations, p.Cases(tier))
	}

	// samples: at most 10, from distinct cells first
	sort.Slice(a.Samples, func(i, j int) bool { return a.Samples[i].K < a.Samples[j].K })
	var samples []interface{}
	seenCell := map[string]bool{}
	for _, s := range a.Samples {
		if !seenCell[s.Cell] && len(samples) < 10 {
			seenCell[s.Cell] = true
			samples = append(samples, s)
		}
	}
	if len(samples) == 0 {
		for _, s := range a.Samples {
			if len(samples) < 3 {
				samples = append(samples, s)
			}
		}
	}
	if len(samples) == 0 {
		samples = append(samples, "no held case this run")
	}
	cov := map[string]interface{}{
		"evaluations":         a.Evaluations,
		"distinct_nontrivial": distinct,
		"rule":                p.Rule,
		"samples":             samples,
		"held":                a.Held,
		"trivial":             a.Trivial,
		"unspecified":         a.Unspec,
		"unspecified_reasons": a.UnspecReasons,
		"violated_cases":      a.Violated,
		"cells":               a.Cells,
		"cells_hit":           len(a.Cells),
		"observers":           a.Counters,
		"known_finding_cases": knownSeen,
		"process_deaths":      len(res.deaths) - res.raceReport,
	}
	if tier == "thorough" && p.RaceCases > 0 {
		cov["race_pass_cases"] = res.raceCases
		cov["race_reports"] = res.raceReport
	}
	if broken != "" {
		cov["broken"] = broken
	}
	ev := map[string]interface{}{
		"property_id": p.ID,
		"tier":        tier,
		"seed":        seed,
		"level":       "exploration",
		"coverage":    cov,
		"assumptions": p.Assumptions,
		"wall_s":      float64(int(wall.Seconds()*100)) / 100,
		"violations":  unlisted + deathViol,
	}
	b, _ := json.MarshalIndent(ev, "", " ")
	os.WriteFile(filepath.Join(outRoot, "evidence", p.ID+".json"), append(b, '\n'), 0o644)

	fmt.Printf("%s %s seed=%d: %d cases, %d held (%d distinct non-trivial shapes, %d cells), %d unspecified, %d trivial, %d violating (%d unlisted classes), %.1fs\n",
		p.ID, tier, seed, a.Evaluations, a.Held, distinct, len(a.Cells), a.Unspec, a.Trivial, a.Violated, unlisted, wall.Seconds())
	if exit == 1 {
		return 1
	}
	if broken != "" {
		fmt.Printf("BROKEN-CHECK %s: %s\n", p.ID, broken)
		return 2
	}
	return 0
}

func writeReplay(root, id, tier string, seed int64, sig string, v *Viol, count int64) string {
	name := fmt.Sprintf("%s-%016x.json", id, hashStr(sig+"|"+tier+"|"+strconv.FormatInt(seed, 10)))
	path := filepath.Join(root, "replay", name)
	m := map[string]interface{}{"property": id, "tier": tier, "seed": seed, "sig": sig, "count_this_run": count}
	if v != nil {
		m["k"] = v.K
		m["msg"] = v.Msg
		m["case"] = v.Case
		if v.Extra != nil {
			m["observed"] = v.Extra
		}
	}
	b, _ := json.MarshalIndent(m, "", " ")
	os.WriteFile(path, append(b, '\n'), 0o644)
	return path
}

// ---------------------------------------------------------------------------
// Worker entry points
// ---------------------------------------------------------------------------

func workerMain(args []string) int {
	if len(args) < 7 {
		return 2
	}
	id, tier := args[0], args[1]
	seed, _ := strconv.ParseInt(args[2], 10, 64)
	lo, _ := strconv.ParseInt(args[3], 10, 64)
	hi, _ := strconv.ParseInt(args[4], 10, 64)
	outPath, jPath := args[5], args[6]
	p := registry[id]
	if p == nil {
		return 2
	}
	w := &Worker{P: p, Tier: tier, Seed: seed, out: newWorkerOut(lo, hi), shapes: map[uint64]struct{}{}, seenCel: map[string]int{}}
	// journal: mmap 16 bytes, the current case index is stored before each case
	if f, err := os.OpenFile(jPath, os.O_RDWR, 0); err == nil {
		if m, err := syscall.Mmap(int(f.Fd()), 0, 16, syscall.PROT_READ|syscall.PROT_WRITE, syscall.MAP_SHARED); err == nil {
			w.journal = m
		}
		f.Close()
	}
	w.Cap = startFdCapture(filepath.Dir(outPath), filepath.Base(outPath))
	if p.NeedPty {
		w.Pty = openPty()
	}
	if p.Setup != nil {
		p.Setup(w)
	}
	for k := lo; k < hi; k++ {
		if w.journal != nil {
			binary.LittleEndian.PutUint64(w.journal, uint64(k))
		}
		w.runCase(k)
		if w.out.Broken != "" {
			break
		}
	}
	if w.journal != nil {
		binary.LittleEndian.PutUint64(w.journal, ^uint64(0))
	}
	w.finish()
	w.Cap.Close()
	b, _ := json.Marshal(w.out)
	if err := os.WriteFile(outPath, b, 0o644); err != nil {
		return 2
	}
	return 0
}

// raceWorkerMain runs cases [0,n) of the property's "race" tier on many goroutines at once.
func raceWorkerMain(args []string) int {
	id := args[0]
	seed, _ := strconv.ParseInt(args[1], 10, 64)
	n, _ := strconv.ParseInt(args[2], 10, 64)
	outPath := args[3]
	p := registry[id]
	G := runtime.NumCPU()
	outs := make([]*Worker, G)
	var wg sync.WaitGroup
	capt := startFdCapture(filepath.Dir(outPath), "race")
	if p.Setup != nil {
		p.Setup(&Worker{P: p, Tier: "race", Seed: seed})
	}
	for g := 0; g < G; g++ {
		w := &Worker{P: p, Tier: "race", Seed: seed, out: newWorkerOut(0, n), shapes: map[uint64]struct{}{}, seenCel: map[string]int{}, Cap: capt}
		outs[g] = w
		wg.Add(1)
		go func(g int, w *Worker) {
			defer wg.Done()
			for k := int64(g); k < n; k += int64(G) {
				w.runCase(k)
				if w.out.Broken != "" {
					return
				}
			}
		}(g, w)
	}
	wg.Wait()
	res := &runResult{agg: newWorkerOut(0, n), shapes: map[uint64]struct{}{}}
	for _, w := range outs {
		w.finish()
		mergeOut(res, w.out)
	}
	for h := range res.shapes {
		res.agg.Shapes = append(res.agg.Shapes, h)
	}
	// stray output during the whole concurrent run (no case uses PrintErrors in race tier)
	o1, o2 := capt.Sizes()
	if o1+o2 > 0 {
		res.agg.Violated++
		res.agg.ViolBySig["race-tier:stray-output"]++
		res.agg.Violations = append(res.agg.Violations, Viol{K: -1, Sig: "race-tier:stray-output", Msg: fmt.Sprintf("%d bytes on fd1, %d bytes on fd2 during concurrent run", o1, o2)})
	}
	capt.Close()
	res.agg.Done = true
	b, _ := json.Marshal(res.agg)
	os.WriteFile(outPath, b, 0o644)
	return 0
}

// replayMain re-executes exactly one case from a replay file in this process and prints the comparison.
func replayMain(path string) int {
	b, err := os.ReadFile(path)
	if err != nil {
		fmt.Fprintln(os.Stderr, err)
		return 2
	}
	var m struct {
		Property string `json:"property"`
		Tier     string `json:"tier"`
		Seed     int64  `json:"seed"`
		K        int64  `json:"k"`
		Sig      string `json:"sig"`
	}
	if err := json.Unmarshal(b, &m); err != nil {
		fmt.Fprintln(os.Stderr, err)
		return 2
	}
	p := registry[m.Property]
	if p == nil || m.K < 0 {
		fmt.Fprintln(os.Stderr, "replay file names no re-executable case")
		return 2
	}
	root := verifRoot()
	scratch := filepath.Join(root, ".scratch", fmt.Sprintf("replay-%d", os.Getpid()))
	os.MkdirAll(scratch, 0o755)
	defer os.RemoveAll(scratch)
	exe, _ := os.Executable()
	out, culprit, why := spawnWorker(exe, scratch, "replay", m.Property, m.Tier, m.Seed, m.K, m.K+1, singleWatchdog)
	if out == nil || !out.Done {
		fmt.Printf("replay: child died or hung in case %d (%s)\n", culprit, why)
		fmt.Printf("VIOLATION property=%s replay=%s\n", m.Property, path)
		return 1
	}
	if out.Violated > 0 {
		for _, v := range out.Violations {
			js, _ := json.MarshalIndent(v, "", " ")
			fmt.Printf("%s\n", js)
		}
		fmt.Printf("VIOLATION property=%s replay=%s\n", m.Property, path)
		return 1
	}
	fmt.Printf("replay: case %d of %s (seed %d, tier %s) no longer violates (held=%d unspecified=%d trivial=%d)\n", m.K, m.Property, m.Seed, m.Tier, out.Held, out.Unspec, out.Trivial)
	return 0
}
