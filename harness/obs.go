package main

import (
	"fmt"
	"os"
	"path/filepath"
	"runtime/debug"
	"syscall"
	"unsafe"

	"golang.org/x/sys/unix"
)

// ---------------------------------------------------------------------------
// fd-level capture of this process's stdout and stderr (sees os.Stdout, fmt.Print*, println, raw write(2))
// ---------------------------------------------------------------------------

type FdCapture struct {
	f1, f2 *os.File
	p1, p2 string
}

func startFdCapture(dir, tag string) *FdCapture {
	c := &FdCapture{p1: filepath.Join(dir, tag+".fd1"), p2: filepath.Join(dir, tag+".fd2")}
	var err error
	c.f1, err = os.OpenFile(c.p1, os.O_RDWR|os.O_CREATE|os.O_TRUNC|os.O_APPEND, 0o644)
	if err != nil {
		return nil
	}
	c.f2, err = os.OpenFile(c.p2, os.O_RDWR|os.O_CREATE|os.O_TRUNC|os.O_APPEND, 0o644)
	if err != nil {
		return nil
	}
	syscall.Dup2(int(c.f1.Fd()), 1)
	syscall.Dup2(int(c.f2.Fd()), 2)
	return c
}

// Sizes returns the number of bytes that have reached fd 1 and fd 2 so far.
func (c *FdCapture) Sizes() (int64, int64) {
	if c == nil {
		return 0, 0
	}
	var s1, s2 syscall.Stat_t
	syscall.Fstat(1, &s1)
	syscall.Fstat(2, &s2)
	return s1.Size, s2.Size
}

// ReadFrom returns what was written to fd 1 / fd 2 since the given offsets.
func (c *FdCapture) ReadFrom(o1, o2 int64) (string, string) {
	if c == nil {
		return "", ""
	}
	n1, n2 := c.Sizes()
	b1 := make([]byte, n1-o1)
	b2 := make([]byte, n2-o2)
	c.f1.ReadAt(b1, o1)
	c.f2.ReadAt(b2, o2)
	return string(b1), string(b2)
}

// Reset truncates the capture files (keeps them small over millions of cases).
func (c *FdCapture) Reset() {
	if c == nil {
		return
	}
	c.f1.Truncate(0)
	c.f2.Truncate(0)
}

func (c *FdCapture) Close() {
	if c == nil {
		return
	}
	c.f1.Close()
	c.f2.Close()
	os.Remove(c.p1)
	os.Remove(c.p2)
}

// ---------------------------------------------------------------------------
// pseudo-terminal on fd 0 with controllable width
// ---------------------------------------------------------------------------

type Pty struct {
	master, slave *os.File
	ok            bool
}

func openPty() *Pty {
	m, err := os.OpenFile("/dev/ptmx", os.O_RDWR|syscall.O_NOCTTY, 0)
	if err != nil {
		return &Pty{}
	}
	var n uint32
	if _, _, e := syscall.Syscall(syscall.SYS_IOCTL, m.Fd(), syscall.TIOCGPTN, uintptr(unsafe.Pointer(&n))); e != 0 {
		m.Close()
		return &Pty{}
	}
	var unlock int32
	if _, _, e := syscall.Syscall(syscall.SYS_IOCTL, m.Fd(), syscall.TIOCSPTLCK, uintptr(unsafe.Pointer(&unlock))); e != 0 {
		m.Close()
		return &Pty{}
	}
	s, err := os.OpenFile(fmt.Sprintf("/dev/pts/%d", n), os.O_RDWR|syscall.O_NOCTTY, 0)
	if err != nil {
		m.Close()
		return &Pty{}
	}
	if err := syscall.Dup2(int(s.Fd()), 0); err != nil {
		m.Close()
		s.Close()
		return &Pty{}
	}
	return &Pty{master: m, slave: s, ok: true}
}

// SetWidth sets the terminal width seen through fd 0. Returns false if no pty is available.
func (p *Pty) SetWidth(cols int) bool {
	if p == nil || !p.ok {
		return false
	}
	ws := &unix.Winsize{Row: 50, Col: uint16(cols)}
	if err := unix.IoctlSetWinsize(0, unix.TIOCSWINSZ, ws); err != nil {
		return false
	}
	got, err := unix.IoctlGetWinsize(0, unix.TIOCGWINSZ)
	return err == nil && int(got.Col) == cols
}

// ---------------------------------------------------------------------------
// panic observer
// ---------------------------------------------------------------------------

type PanicInfo struct {
	Value string
	Stack string
}

// safely runs f and returns a non-nil PanicInfo if it panicked.
func safely(f func()) (pi *PanicInfo) {
	defer func() {
		if r := recover(); r != nil {
			pi = &PanicInfo{Value: fmt.Sprint(r), Stack: string(debug.Stack())}
		}
	}()
	f()
	return nil
}
