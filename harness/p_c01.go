package main

import (
	"fmt"

	flags "github.com/jessevdk/go-flags"
)

var parserOptSubsets = []flags.Options{
	flags.None, flags.HelpFlag, flags.PassDoubleDash, flags.HelpFlag | flags.PassDoubleDash, flags.Default,
	flags.PassAfterNonOption, flags.PassDoubleDash | flags.PassAfterNonOption, flags.IgnoreUnknown,
	flags.IgnoreUnknown | flags.PassDoubleDash, flags.HelpFlag | flags.PassDoubleDash | flags.IgnoreUnknown | flags.PassAfterNonOption,
}

var c01Homes = []string{"root", "nested", "nested-ns", "cmd", "cmd-ns"}

func optHome(o *Opt) string {
	ns := len(o.NsChain()) > 0
	inCmd := o.Cmd.Parent != nil
	nested := o.Grp.Parent != nil || o.Grp.ByAddGroup
	switch {
	case inCmd && ns:
		return "cmd-ns"
	case inCmd:
		return "cmd"
	case ns:
		return "nested-ns"
	case nested:
		return "nested"
	}
	return "root"
}

func c01DeclCfg(focus TypeSpec) *DeclCfg {
	types := append([]TypeSpec{}, typesAll...)
	for i := 0; i < 12; i++ {
		types = append(types, focus)
	}
	return &DeclCfg{
		MaxDepth: 3, MaxFan: 3, PCmds: 60, Types: types, OptsMin: 1, OptsMax: 4, SubGroupsMax: 2, NestMax: 2,
		PNamespace: 50, PEnvNS: 0, PShortOnly: 20, PLongOnly: 25, NonASCII: false, PClash: 15,
		PDefault: 15, PChoices: 10, POptional: 10, PHidden: 10, PHiddenGrp: 10, PHiddenCmd: 10, PBase: 25, PNoUnquote: 10,
		PInitial: 40, PPlain: 50, PDefault2: 30, PNoFlag: 20, PProgAttr: 30, PPos: 35, PosMax: 3, PRest: 40, PExec: 25, PByTag: 50, PSubOptional: 30, PAliases: 40,
		PInline: 25, PNameless: 5, PCmdTwin: 20, PPtrGroup: 10, PDesc: 50, PValueName: 20, ParserOpts: parserOptSubsets, NsDelims: []string{"", "", "-", "::", "_"},
		PosTypes:   []TypeSpec{{K: KString}, {K: KString}, {K: KInt}, {K: KFloat64}, {K: KDuration}, {K: KCelsius}, {K: KString, W: WMap, MapKey: KString}, {K: KOnOff}},
		PNamedRest: 30, PPosSplit: 20, PPosLongTag: 10,
	}
}

func c01Run(c *Ctx) {
	nt := int64(len(typesAll) - len(typesFlags)) // the distinct types (flags were appended twice)
	focusT := typesAll[c.K%nt]
	home := c01Homes[(c.K/nt)%int64(len(c01Homes))]
	occN := int((c.K/(nt*int64(len(c01Homes))))%3) + 1
	var d *Decl
	var focus *Opt
	for try := 0; try < 12 && focus == nil; try++ {
		d = GenDecl(c.Sub(fmt.Sprint("decl", try)), c01DeclCfg(focusT))
		for _, o := range d.Opts {
			if o.T == focusT && optHome(o) == home && !o.Optional {
				focus = o
				break
			}
		}
	}
	b := d.Build()
	if b.Err != nil {
		c.Violate("setup-error", "generated declaration rejected: %v", b.Err)
		c.Case(func() interface{} { return d.Describe() })
		return
	}
	scfg := &ScenCfg{MaxItems: 10, POcc: 50, PCluster: 10, PPos: 15, PCmd: 15, PTerm: 30, PQuoted: 15, HostileRaw: true}
	if focus != nil {
		scfg.Focus, scfg.FocusN, scfg.Target = focus, occN, focus.Cmd
	}
	sc := GenScenario(c.R, d, scfg)
	args := sc.Args()
	var added []*apiOpt
	var addedWant map[*apiOpt]string
	if c.K%6 == 4 {
		// options registered on the parser / a root group through the public AddOption API: single-token
		// occurrences in front of the vector (valid from the first token on, independent of what follows)
		ar := c.Sub("api")
		added = addAPIOptions(ar, b, true)
		var toks []string
		toks, addedWant, _ = apiOccurrences(ar, added, true)
		args = append(toks, args...)
		c.Note("added", describeAPI(added))
		c.Count("api_added_options", int64(len(added)))
	}
	c.Case(caseOf(sc, args, nil))
	if sc.Exp.Unspec != "" {
		c.Unspec(sc.Exp.Unspec)
		return
	}
	if sc.NeedsCommand() {
		c.Unspec("vector ends where a sub-command is still required")
		return
	}
	o := RunParse(b, args)
	c.Count("parses", 1)
	c.Count("callbacks_observed", int64(len(callbacksOnly(o.Log))))
	if o.Panic != nil {
		c.Violate("panic", "ParseArgs panicked: %s", o.Panic.Value)
		c.Note("stack", o.Panic.Stack)
		return
	}
	if o.Err != nil {
		if _, isSentinel := o.Err.(*sentinelErr); !isSentinel {
			c.Violate("valid-vector-rejected:"+errTypeName(o.Err), "valid vector rejected: %v", o.Err)
			return
		}
	}
	if sig, msg := CompareSuccess(sc, o, false); sig != "" {
		c.Violate(sig, "%s", msg)
		c.Note("snapshot", o.Snap)
		return
	}
	if added != nil && o.Err == nil {
		if sig, msg := apiCompare(added, addedWant, true); sig != "" {
			c.Violate(sig, "%s", msg)
			return
		}
	}
	cell := "unfocused"
	shape := fmt.Sprintf("%d items", len(sc.Items))
	if focus != nil {
		n := sc.Exp.Seen[focus]
		if n > 3 {
			n = 3
		}
		cell = fmt.Sprintf("%s/%s/occ%d", focusT, home, n)
		sp := ""
		for _, it := range sc.Items {
			if it.Opt == focus && it.Kind == IOcc {
				sp += it.Sp.String() + ";"
			}
			if it.Kind == ICluster {
				sp += "cluster;"
			}
		}
		shape = fmt.Sprintf("%s depth=%d opts=%s", sp, focus.Cmd.Depth, optionsString(d.Options))
	}
	if c.K%5 == 2 {
		// the same declaration on a parser that is used twice with a change of the public model in between
		if hl := histParseStage(c, d, []string{"late-group-on-command", "late-group-on-ancestor", "late-group-in-group", "rename-namespace", "rename-option", "delimiter", "none"}, "parse"); hl != "" {
			shape += " history=" + hl
		}
		if c.Violated() {
			return
		}
	}
	c.Held(cell, shape)
}

func init() {
	register(&Property{
		ID:    "C01",
		Title: "Option fields hold exactly what the command line denotes",
		Cases: func(tier string) int64 {
			switch tier {
			case "thorough":
				return 1200000
			case "race":
				return 0
			}
			return 60000
		},
		Run:           c01Run,
		MinNontrivial: 500,
		Rule: "case k: a reflect.StructOf declaration (nested/namespaced groups, commands to depth 3 by tag and by AddCommand, Commander nodes) with a focus option whose type is typesAll[k mod T], whose home is {root, nested group, namespaced group, command, namespaced group of a command}[k/T mod 5] and which is given (k/5T mod 3)+1 times; an intent-rendered valid argument vector (every admissible spelling, clusters, positionals, command words by name/alias, terminator, pre-existing field contents, plain canary fields); for k mod 6 = 4 also 1-3 options registered through the public AddOption API on the parser / a root group, given as single-token occurrences in front of the vector and compared through the program's own variables. " +
			"Non-trivial = the parse was executed and every option field, callback log entry, positional and plain field was compared with the denotation; distinct = (cell, spellings of the focus occurrences, command depth, parser options).",
		Assumptions: []string{"option types are drawn from the harness pool (no arrays/interfaces/user structs without unmarshalers)", "optional-argument options are scalar only; given bare without any optional-value their value is left unjudged", "POSIX option style only"},
		Technique:   "runtime reference-model monitor: intent-rendered argv, value snapshot + callback log compared with an independent denotation; stratified seeded workload; metamorphic history monitor ([use, change of the public model, use] on one parser vs. a fresh parser of the changed declaration); ownership monitors on caller-held data (the argument vector handed to ParseArgs, lists and maps the program stored into option fields before parsing)",
		LevelText:   "Exploration: 6x10^4 (quick) to 2x10^6 (thorough) generated (declaration, argv) points, stratified so that every (type x home x occurrence count) cell is hit at every seed, each judged by a case-independent denotation oracle. Appropriate because the property quantifies over a product space of inputs of a deterministic, single-threaded function.",
		LevelNote:   "Trusted: the harness's declaration builder, the intent walker (which encodes the documented parsing rules) and the reference conversion functions (self-tested).",
		DesignRef:   "§4 C01",
	})
}
