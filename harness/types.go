package main

import (
	"errors"
	"fmt"
	"math"
	"reflect"
	"sort"
	"strconv"
	"strings"
	"time"

	flags "github.com/jessevdk/go-flags"
)

// ---------------------------------------------------------------------------
// Option type universe
// ---------------------------------------------------------------------------

type TK int

const (
	KString TK = iota
	KBool
	KInt
	KInt8
	KInt16
	KInt32
	KInt64
	KUint
	KUint8
	KUint16
	KUint32
	KUint64
	KFloat32
	KFloat64
	KDuration
	KCelsius // named int32 with pointer-receiver UnmarshalFlag and value-receiver MarshalFlag
	KPoint   // struct with pointer-receiver UnmarshalFlag/MarshalFlag
	KVocab   // string type that implements Completer
	KPicky   // string type that implements ValueValidator
	KOnOff   // bool-kinded type with UnmarshalFlag/MarshalFlag ("on"/"off"): takes an argument although its kind is bool
	KRes     // string-kinded type whose UnmarshalFlag lower-cases and rejects texts containing '!' (also used as a map key)
	KBag     // struct whose UnmarshalFlag appends to what it holds (an accumulating unmarshaler)
	KMode    // struct with state: its Complete method offers the values stored IN THE VALUE (used behind a pre-allocated pointer)
	KLevel   // named int32 with a String method and nothing else: read and written as the plain integer it is
	numTK
)

var tkNames = [...]string{"string", "bool", "int", "int8", "int16", "int32", "int64", "uint", "uint8", "uint16", "uint32", "uint64", "float32", "float64", "Duration", "Celsius", "Point", "Vocab", "Picky", "OnOff", "Res", "Bag", "Mode", "Level"}

func (k TK) String() string { return tkNames[k] }

type Wrap int

const (
	WScalar Wrap = iota
	WPtr
	WSlice
	WSlicePtr
	WMap       // map[MapKey]K
	WFunc0     // func()
	WFunc1     // func(K)
	WFunc1Err  // func(K) error
	WFunc0Err  // func() error
	WFunc1PErr // func(K) *PErr - a concrete pointer type that implements error; a nil result is NOT an error
	WPtrPtr    // **K (behaves like *K)
	WPtrSlice  // *[]K (a list behind a pointer: accumulates within one parse)
)

var wrapNames = [...]string{"", "*", "[]", "[]*", "map", "func()", "func(T)", "func(T)error", "func()error", "func(T)*PErr"}

type TypeSpec struct {
	K      TK
	W      Wrap
	MapKey TK
}

func (t TypeSpec) String() string {
	switch t.W {
	case WMap:
		return "map[" + t.MapKey.String() + "]" + t.K.String()
	case WFunc0:
		return "func()"
	case WFunc0Err:
		return "func()error"
	case WFunc1:
		return "func(" + t.K.String() + ")"
	case WFunc1Err:
		return "func(" + t.K.String() + ")error"
	case WFunc1PErr:
		return "func(" + t.K.String() + ")*PErr"
	}
	if t.W == WPtrPtr {
		return "**" + t.K.String()
	}
	if t.W == WPtrSlice {
		return "*[]" + t.K.String()
	}
	return wrapNames[t.W] + t.K.String()
}

// ---- pool types that carry methods (cannot be synthesised by reflect.StructOf) ----

type Celsius int32

func (c *Celsius) UnmarshalFlag(s string) error {
	if len(s) < 2 || s[len(s)-1] != 'C' {
		return errors.New("celsius: want <int>C")
	}
	n, err := strconv.ParseInt(s[:len(s)-1], 10, 16)
	if err != nil {
		return errors.New("celsius: bad number")
	}
	*c = Celsius(n)
	return nil
}

func (c Celsius) MarshalFlag() (string, error) { return strconv.Itoa(int(c)) + "C", nil }

type Point struct{ x, y int }

func (p *Point) UnmarshalFlag(s string) error {
	parts := strings.Split(s, ",")
	if len(parts) != 2 {
		return errors.New("point: want x,y")
	}
	x, err := strconv.ParseInt(parts[0], 10, 32)
	if err != nil {
		return errors.New("point: bad x")
	}
	y, err := strconv.ParseInt(parts[1], 10, 32)
	if err != nil {
		return errors.New("point: bad y")
	}
	p.x, p.y = int(x), int(y)
	return nil
}

func (p *Point) MarshalFlag() (string, error) { return fmt.Sprintf("%d,%d", p.x, p.y), nil }

var vocabulary = []string{"alpha", "alps", "beta", "betamax", "gamma", "al pha"}

type Vocab string

func (v *Vocab) Complete(match string) []flags.Completion {
	var ret []flags.Completion
	for _, w := range vocabulary {
		if strings.HasPrefix(w, match) {
			ret = append(ret, flags.Completion{Item: w})
		}
	}
	return ret
}

type Picky string

func (p *Picky) IsValidValue(s string) error {
	if strings.HasPrefix(s, "!") {
		return errors.New("picky: values may not start with !")
	}
	return nil
}

type OnOff bool

func (o *OnOff) UnmarshalFlag(s string) error {
	switch s {
	case "on":
		*o = true
	case "off":
		*o = false
	default:
		return errors.New("onoff: want on or off")
	}
	return nil
}

func (o OnOff) MarshalFlag() (string, error) {
	if o {
		return "on", nil
	}
	return "off", nil
}

type Res string

func (x *Res) UnmarshalFlag(s string) error {
	if strings.Contains(s, "!") {
		return errors.New("res: names may not contain !")
	}
	*x = Res(strings.ToLower(s))
	return nil
}

// PErr is a concrete error type; callbacks declared to return *PErr return a nil pointer on success.
type PErr struct{ msg string }

func (e *PErr) Error() string { return e.msg }

// ModeVal completes from the list it carries: a fresh zero value completes nothing.
type ModeVal struct {
	allowed []string
	v       string
}

func (m *ModeVal) UnmarshalFlag(s string) error { m.v = s; return nil }

func (m *ModeVal) Complete(match string) []flags.Completion {
	var ret []flags.Completion
	for _, w := range m.allowed {
		if strings.HasPrefix(w, match) {
			ret = append(ret, flags.Completion{Item: w})
		}
	}
	return ret
}

type Bag struct{ items []string }

func (b *Bag) UnmarshalFlag(s string) error {
	b.items = append(b.items, s)
	return nil
}

// StrList is a named slice type (a rest positional of this type is still a list).
type StrList []string

// Level is a named integer type that only has a String method (no Marshaler, no Unmarshaler).
type Level int32

func (l Level) String() string { return "level<" + strconv.Itoa(int(l)) + ">" }

// AccList is a named slice type that unmarshals itself: every argument it is handed is appended.
type AccList []string

func (a *AccList) UnmarshalFlag(s string) error {
	*a = append(*a, s)
	return nil
}

var (
	tString   = reflect.TypeOf("")
	tBool     = reflect.TypeOf(false)
	tDuration = reflect.TypeOf(time.Duration(0))
	tError    = reflect.TypeOf((*error)(nil)).Elem()
)

func scalarType(k TK) reflect.Type {
	switch k {
	case KString:
		return tString
	case KBool:
		return tBool
	case KInt:
		return reflect.TypeOf(int(0))
	case KInt8:
		return reflect.TypeOf(int8(0))
	case KInt16:
		return reflect.TypeOf(int16(0))
	case KInt32:
		return reflect.TypeOf(int32(0))
	case KInt64:
		return reflect.TypeOf(int64(0))
	case KUint:
		return reflect.TypeOf(uint(0))
	case KUint8:
		return reflect.TypeOf(uint8(0))
	case KUint16:
		return reflect.TypeOf(uint16(0))
	case KUint32:
		return reflect.TypeOf(uint32(0))
	case KUint64:
		return reflect.TypeOf(uint64(0))
	case KFloat32:
		return reflect.TypeOf(float32(0))
	case KFloat64:
		return reflect.TypeOf(float64(0))
	case KDuration:
		return tDuration
	case KCelsius:
		return reflect.TypeOf(Celsius(0))
	case KPoint:
		return reflect.TypeOf(Point{})
	case KVocab:
		return reflect.TypeOf(Vocab(""))
	case KPicky:
		return reflect.TypeOf(Picky(""))
	case KOnOff:
		return reflect.TypeOf(OnOff(false))
	case KRes:
		return reflect.TypeOf(Res(""))
	case KBag:
		return reflect.TypeOf(Bag{})
	case KMode:
		return reflect.TypeOf(ModeVal{})
	case KLevel:
		return reflect.TypeOf(Level(0))
	}
	panic("bad TK")
}

func (t TypeSpec) GoType() reflect.Type {
	e := scalarType(t.K)
	switch t.W {
	case WScalar:
		return e
	case WPtr:
		return reflect.PtrTo(e)
	case WSlice:
		return reflect.SliceOf(e)
	case WSlicePtr:
		return reflect.SliceOf(reflect.PtrTo(e))
	case WMap:
		return reflect.MapOf(scalarType(t.MapKey), e)
	case WFunc0:
		return reflect.FuncOf(nil, nil, false)
	case WFunc0Err:
		return reflect.FuncOf(nil, []reflect.Type{tError}, false)
	case WFunc1:
		return reflect.FuncOf([]reflect.Type{e}, nil, false)
	case WFunc1Err:
		return reflect.FuncOf([]reflect.Type{e}, []reflect.Type{tError}, false)
	case WFunc1PErr:
		return reflect.FuncOf([]reflect.Type{e}, []reflect.Type{reflect.TypeOf((*PErr)(nil))}, false)
	case WPtrPtr:
		return reflect.PtrTo(reflect.PtrTo(e))
	case WPtrSlice:
		return reflect.PtrTo(reflect.SliceOf(e))
	}
	panic("bad wrap")
}

func (t TypeSpec) IsFunc() bool { return t.W >= WFunc0 && t.W <= WFunc1PErr }

// IsFlag: the option takes no argument (bool, *bool, []bool, func()).
func (t TypeSpec) IsFlag() bool {
	if t.W == WFunc0 || t.W == WFunc0Err {
		return true
	}
	if t.W == WMap || t.W == WFunc1 || t.W == WFunc1Err || t.W == WFunc1PErr {
		return false
	}
	return t.K == KBool
}

func (t TypeSpec) IsMulti() bool {
	return t.W == WSlice || t.W == WSlicePtr || t.W == WMap || t.W == WPtrSlice
}

func isSignedKind(k TK) bool {
	return (k >= KInt && k <= KInt64) || k == KLevel || k == KFloat32 || k == KFloat64
}

// IsSignedNumeric mirrors the documented exception "a negative number given to a signed numeric option".
func (t TypeSpec) IsSignedNumeric() bool {
	if t.W == WMap || t.IsFunc() {
		return false
	}
	return isSignedKind(t.K)
}

func isIntKind(k TK) bool  { return k >= KInt && k <= KUint64 }
func isSIntKind(k TK) bool { return k >= KInt && k <= KInt64 }
func isUIntKind(k TK) bool { return k >= KUint && k <= KUint64 }

func intBits(k TK) int {
	switch k {
	case KInt, KUint, KInt64, KUint64:
		return 64
	case KInt8, KUint8:
		return 8
	case KInt16, KUint16:
		return 16
	case KInt32, KUint32:
		return 32
	}
	return 0
}

// ---------------------------------------------------------------------------
// Canonical rendering of observed values (byte-exact strings, bit-exact floats,
// nil == empty for slices and maps, maps sorted)
// ---------------------------------------------------------------------------

func Canon(v reflect.Value) string {
	var sb strings.Builder
	canon(&sb, v)
	return sb.String()
}

func canon(sb *strings.Builder, v reflect.Value) {
	if !v.IsValid() {
		sb.WriteString("<invalid>")
		return
	}
	switch v.Kind() {
	case reflect.Ptr:
		if v.IsNil() {
			sb.WriteString("nil")
			return
		}
		sb.WriteString("&")
		canon(sb, v.Elem())
	case reflect.Slice:
		sb.WriteString("[")
		for i := 0; i < v.Len(); i++ {
			if i > 0 {
				sb.WriteString(" ")
			}
			canon(sb, v.Index(i))
		}
		sb.WriteString("]")
	case reflect.Map:
		type kv struct{ k, v string }
		var items []kv
		it := v.MapRange()
		for it.Next() {
			items = append(items, kv{Canon(it.Key()), Canon(it.Value())})
		}
		sort.Slice(items, func(i, j int) bool { return items[i].k < items[j].k })
		sb.WriteString("{")
		for i, e := range items {
			if i > 0 {
				sb.WriteString(" ")
			}
			sb.WriteString(e.k + "=>" + e.v)
		}
		sb.WriteString("}")
	case reflect.String:
		sb.WriteString(strconv.Quote(v.String()))
	case reflect.Bool:
		sb.WriteString(strconv.FormatBool(v.Bool()))
	case reflect.Int, reflect.Int8, reflect.Int16, reflect.Int32, reflect.Int64:
		sb.WriteString(strconv.FormatInt(v.Int(), 10))
	case reflect.Uint, reflect.Uint8, reflect.Uint16, reflect.Uint32, reflect.Uint64:
		sb.WriteString(strconv.FormatUint(v.Uint(), 10))
	case reflect.Float32, reflect.Float64:
		f := v.Float()
		if math.IsNaN(f) {
			sb.WriteString("fNaN")
		} else {
			sb.WriteString("f" + strconv.FormatUint(math.Float64bits(f), 16))
		}
	case reflect.Func:
		if v.IsNil() {
			sb.WriteString("nilfunc")
		} else {
			sb.WriteString("func")
		}
	case reflect.Struct:
		sb.WriteString("(")
		for i := 0; i < v.NumField(); i++ {
			if i > 0 {
				sb.WriteString(",")
			}
			canon(sb, v.Field(i))
		}
		sb.WriteString(")")
	case reflect.Interface:
		if v.IsNil() {
			sb.WriteString("nilif")
		} else {
			canon(sb, v.Elem())
		}
	default:
		sb.WriteString("<" + v.Kind().String() + ">")
	}
}

// display renders a value for humans (samples, replay files).
func display(v reflect.Value) string {
	if !v.IsValid() {
		return "<invalid>"
	}
	switch v.Kind() {
	case reflect.Func:
		return "func"
	case reflect.Ptr:
		if v.IsNil() {
			return "nil"
		}
		return "&" + display(v.Elem())
	case reflect.Struct:
		return Canon(v)
	}
	return fmt.Sprintf("%#v", v.Interface())
}

func newZero(t TypeSpec) reflect.Value { return reflect.New(t.GoType()).Elem() }
