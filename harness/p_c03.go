package main

import (
	"fmt"
	"strings"

	flags "github.com/jessevdk/go-flags"
)

// C03: unconsumed arguments are conserved, in order.

var c03OptSets = []flags.Options{
	0, flags.PassDoubleDash, flags.PassAfterNonOption, flags.IgnoreUnknown,
	flags.PassDoubleDash | flags.PassAfterNonOption, flags.PassDoubleDash | flags.IgnoreUnknown,
	flags.PassAfterNonOption | flags.IgnoreUnknown, flags.PassDoubleDash | flags.PassAfterNonOption | flags.IgnoreUnknown,
}

func c03Cfg(opts flags.Options) *DeclCfg {
	types := []TypeSpec{{K: KString}, {K: KBool}, {K: KBool}, {K: KInt}, {K: KString, W: WSlice}, {K: KBool, W: WSlice}, {K: KString, W: WMap, MapKey: KString}, {K: KFloat64}, {W: WFunc0}, {K: KString, W: WFunc1}, {K: KBool, W: WSlicePtr}, {K: KBool, W: WPtr}, {K: KOnOff}}
	return &DeclCfg{
		MaxDepth: 2, MaxFan: 3, PCmds: 55, Types: types, OptsMin: 1, OptsMax: 4, SubGroupsMax: 1, PInline: 20, NestMax: 1,
		PNamespace: 30, PShortOnly: 15, PLongOnly: 15, PClash: 10, POptional: 10,
		PPos: 55, PosMax: 3, PRest: 45, PExec: 60, PByTag: 40, PSubOptional: 50, PAliases: 30,
		ParserOpts: []flags.Options{opts}, PosTypes: []TypeSpec{{K: KString}, {K: KString}, {K: KString}, {K: KInt}, {K: KString, W: WMap, MapKey: KString}},
		PNamedRest: 30, PPosSplit: 20,
	}
}

var c03Hostile = []string{"", "-", "--", "---x", "---", "-=", "--=", "--=x", "x", "x", "a b", "é", "=", "-\xff", "--\xff", "\x00", "--a\x00b", "plain", "plain", "dup", "dup", "dup"}

func isSubsequence(sub, full []string) bool {
	j := 0
	for _, s := range sub {
		for j < len(full) && full[j] != s {
			j++
		}
		if j == len(full) {
			return false
		}
		j++
	}
	return true
}

func c03Run(c *Ctx) {
	r := c.R
	opts := c03OptSets[c.K%8]
	if c.K%16 < 8 { // HelpFlag on in half of the cases (it must not disturb conservation)
		opts |= flags.HelpFlag
	}
	d := GenDecl(c.Sub("d"), c03Cfg(opts))
	if inHistTail(c, 48000, 2400000) {
		// options registered late must be consumed, not conserved
		histCase(c, d, []string{"late-group-on-command", "late-group-on-ancestor", "late-group-in-group", "alias-added", "command-renamed"}, []string{"parse", "help"})
		return
	}
	b := d.Build()
	if b.Err != nil {
		c.Violate("setup-error", "generated declaration rejected: %v", b.Err)
		c.Case(func() interface{} { return d.Describe() })
		return
	}
	handlerCalls := 0
	if opts&flags.IgnoreUnknown != 0 && (c.K/8)%3 == 1 {
		// an installed handler does not take unknown options away from IgnoreUnknown's pass-through
		b.P.UnknownOptionHandler = func(option string, arg flags.SplitArgument, a []string) ([]string, error) {
			handlerCalls++
			if len(a) > 0 {
				return a[1:], nil
			}
			return a, nil
		}
		c.Defer(func() {
			if handlerCalls > 0 && !c.Violated() {
				c.Violate("handler-called-under-ignore-unknown", "IgnoreUnknown is set, yet the unknown-option handler was called %d times", handlerCalls)
			}
		})
	}
	if (c.K/16)%3 == 2 {
		c03Hostiles(c, d, b)
		return
	}
	sc := GenScenario(r, d, &ScenCfg{MaxItems: 10, POcc: 30, PCluster: 8, PPos: 30, PCmd: 15, PTerm: 35, PQuoted: 10, HostileRaw: true, PUnknown: 15, PSiblingWord: 12, PCmdWordAsPos: 10})
	args := sc.Args()
	c.Case(caseOf(sc, args, nil))
	if sc.Exp.Unspec != "" {
		c.Unspec(sc.Exp.Unspec)
		return
	}
	if sc.NeedsCommand() {
		c.Unspec("vector ends where a sub-command is still required")
		return
	}
	o := RunParse(b, args)
	c.Count("parses", 1)
	if o.Panic != nil {
		c.Violate("panic", "ParseArgs panicked: %s", o.Panic.Value)
		return
	}
	if o.Err != nil {
		if _, isSentinel := o.Err.(*sentinelErr); !isSentinel {
			c.Violate("valid-vector-rejected:"+errTypeName(o.Err), "valid vector rejected: %v", o.Err)
			return
		}
	}
	if sig, msg := CompareSuccess(sc, o, o.Err == nil); sig != "" {
		c.Violate("intent:"+sig, "%s", msg)
		return
	}
	// arguments handed to the executed command == the expected remaining arguments
	for _, e := range o.Log {
		if e.Kind == "execute" {
			c.Count("execute_calls_observed", 1)
			if !eqStrs(e.Args, sc.Exp.Rest) {
				c.Violate("intent:execute-args", "Execute received %q, expected remaining arguments %q", e.Args, sc.Exp.Rest)
				return
			}
		}
	}
	c.Count("rest_tokens_observed", int64(len(o.Rest)))
	// the declaration is extended after the parser has been used (a plug-in registering its group late): a second
	// vector that uses the new options inside the same command context must consume them, not pass them through
	lateStage := ""
	if c.K%4 == 1 {
		ok := sc.Final.FC != nil
		for _, cm := range sc.Exp.Chain[:len(sc.Exp.Chain)-1] {
			if cm.Pos != nil {
				ok = false // (an ancestor's positionals would take the command words of the second vector)
			}
		}
		if ok {
			late := &struct {
				Late string `long:"zz-late"`
				Flag []bool `long:"zz-late-flag"`
			}{}
			host := sc.Exp.Chain[r.Intn(len(sc.Exp.Chain))]
			var aerr error
			if host.Parent == nil {
				_, aerr = b.P.AddGroup("Late Options", "", late)
				lateStage = "parser"
			} else {
				_, aerr = host.FC.AddGroup("Late Options", "", late)
				lateStage = "command"
			}
			if aerr != nil {
				c.Violate("late-group:rejected", "AddGroup after the first parse failed: %v", aerr)
				return
			}
			var args2 []string
			for _, cm := range sc.Exp.Chain[1:] {
				args2 = append(args2, cm.Name)
			}
			args2 = append(args2, "--zz-late", "lv", "--zz-late-flag")
			var rest2 []string
			var err2 error
			if pi := safely(func() { rest2, err2 = b.P.ParseArgs(append([]string{}, args2...)) }); pi != nil {
				c.Violate("late-group:panic", "ParseArgs(%q) after AddGroup panicked: %s", args2, pi.Value)
				return
			}
			c.Count("parses", 1)
			if _, isSentinel := err2.(*sentinelErr); err2 != nil && !isSentinel {
				c.Violate("late-group:rejected:"+errTypeName(err2), "options of a group added to the %s after the first parse are refused in context %q: ParseArgs(%q) = %v", lateStage, sc.Final.Name, args2, err2)
				return
			}
			if late.Late != "lv" || len(late.Flag) != 1 || len(rest2) != 0 {
				c.Violate("late-group:not-consumed", "options of a group added to the %s after the first parse: ParseArgs(%q) stored (%q, %v) and returned %q; expected (\"lv\", [true]) and nothing left over", lateStage, args2, late.Late, late.Flag, rest2)
				return
			}
		} else {
			lateStage = ""
		}
	}
	feat := ""
	for _, it := range sc.Items {
		switch it.Kind {
		case ITerm:
			feat += "T"
		case IRaw:
			if !strings.Contains(feat, "R") {
				feat += "R"
			}
		case IFault:
			if !strings.Contains(feat, "U") {
				feat += "U"
			}
		}
	}
	pend := ""
	if sc.Final.Pos != nil {
		pend = fmt.Sprintf("pos%d", len(sc.Final.Pos.Args))
	}
	if lateStage != "" {
		feat += "+late-group-on-" + lateStage
	}
	c.Held("intent/"+optionsString(opts&^flags.HelpFlag)+"/"+feat, fmt.Sprintf("rest=%d %s depth=%d", len(sc.Exp.Rest), pend, sc.Final.Depth))
}

// c03Hostiles: model-free conservation monitor on arbitrary vectors.
func c03Hostiles(c *Ctx, d *Decl, b *Built) {
	r := c.R
	var names []string
	for _, o := range d.Opts {
		if o.Short != 0 {
			names = append(names, "-"+string(o.Short))
		}
		if o.Long != "" {
			names = append(names, "--"+d.FullLong(o), "--"+d.FullLong(o)+"=v")
		}
	}
	for _, cm := range d.Cmds[1:] {
		names = append(names, cm.Name)
	}
	for _, o := range d.Opts {
		if o.Short != 0 && o.T.IsFlag() {
			names = append(names, "-"+string(o.Short)+"Z", "-"+string(o.Short)+string(o.Short)+"9", "-Z"+string(o.Short))
		}
	}
	n := r.Range(0, 12)
	var args []string
	for i := 0; i < n; i++ {
		switch {
		case len(names) > 0 && r.Chance(2, 5):
			args = append(args, names[r.Intn(len(names))])
		case r.Chance(1, 4):
			args = append(args, fmt.Sprintf("t%d", r.Intn(5)))
		default:
			args = append(args, c03Hostile[r.Intn(len(c03Hostile))])
		}
	}
	c.Case(func() interface{} {
		return map[string]interface{}{"declaration": d.Describe(), "argv": fmt.Sprintf("%q", args)}
	})
	o := RunParse(b, args)
	c.Count("parses", 1)
	if o.Panic != nil {
		c.Violate("panic", "ParseArgs panicked: %s", o.Panic.Value)
		return
	}
	if o.Err != nil {
		return // conservation is stated for successful parses (trivial here)
	}
	if !isSubsequence(o.Rest, args) {
		c.Violate("hostile:not-a-subsequence", "remaining arguments %q are not an order-preserving subsequence of the input %q", o.Rest, args)
		return
	}
	for _, e := range o.Log {
		if e.Kind == "execute" && !eqStrs(e.Args, o.Rest) {
			c.Violate("hostile:execute-args", "Execute received %q but ParseArgs returned %q", e.Args, o.Rest)
			return
		}
	}
	// every string positional value is an input token
	tokset := map[string]bool{}
	for _, a := range args {
		tokset[a] = true
	}
	for _, cm := range d.Cmds {
		if cm.Pos == nil {
			continue
		}
		for _, a := range cm.Pos.Args {
			if a.T.K != KString || !a.Val.IsValid() {
				continue
			}
			if a.T.W == WMap {
				it := a.Val.MapRange()
				for it.Next() {
					// (a token without a colon is read as a key with an empty value)
					if e := it.Key().String() + ":" + it.Value().String(); !tokset[e] && !(it.Value().String() == "" && tokset[it.Key().String()]) {
						c.Violate("hostile:positional-invented", "map positional %s holds the entry %q which is not an input token", a.DisplayName(), e)
						return
					}
				}
				continue
			}
			for _, s := range posStrings(a) {
				if !tokset[s] {
					c.Violate("hostile:positional-invented", "positional %s holds %q which is not an input token", a.DisplayName(), s)
					return
				}
			}
		}
	}
	c.Count("rest_tokens_observed", int64(len(o.Rest)))
	c.Held("hostile/"+optionsString(d.Options&^flags.HelpFlag), fmt.Sprintf("n=%d rest=%d", len(args), len(o.Rest)))
}

func init() {
	register(&Property{
		ID:    "C03",
		Title: "Unconsumed arguments are conserved, in order",
		Cases: func(tier string) int64 {
			switch tier {
			case "thorough":
				return 2400000 + 200000 // + history cases
			case "race":
				return 0
			}
			return 48000 + 4000 // + history cases
		},
		Run:           c03Run,
		MinNontrivial: 300,
		Rule: "case k: parser options = the (k mod 8)-th subset of {PassDoubleDash, PassAfterNonOption, IgnoreUnknown} (HelpFlag on in half), a random declaration with 0-3 positionals (with/without trailing slice), 0-2 command levels and Commander nodes. Two of three cases are intent-rendered vectors (options, clusters, positionals, command words, the terminator followed by hostile raw tokens, unknown options under IgnoreUnknown) whose exact remaining arguments are known by construction; every third case is an arbitrary hostile vector checked by the model-free conservation monitor (returned list is an order-preserving subsequence of the input; Execute saw the same list; string positionals hold input tokens). " +
			"Non-trivial = successful parse judged by one of the two oracles; distinct = (mode, option subset, features used, #rest, positional layout, depth).",
		Assumptions: []string{"an UnknownOptionHandler is installed only together with IgnoreUnknown (where it must never be asked); its own contract is C07", "a cluster containing an unknown rune is not generated in intent mode (side effects of its known members are unspecified)"},
		Technique:   "runtime conservation monitor (model-free subsequence/invention check on hostile vectors) + exact token accounting against an intent denotation; metamorphic history monitor ([use, change of the public model, use] on one parser vs. a fresh parser of the changed declaration)",
		LevelText:   "Exploration: all 8 pass-through option combinations at every seed, exact accounting of every token on intent vectors and a sound model-free subsequence monitor on hostile vectors.",
		LevelNote:   "Trusted: the intent walker's accounting of which tokens are consumed; the subsequence check is independent of any model.",
		DesignRef:   "§4 C03",
	})
}
