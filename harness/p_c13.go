package main

import (
	"fmt"
	"strconv"
	"strings"

	flags "github.com/jessevdk/go-flags"
)

// C13: an INI entry means the same as the corresponding command-line flag.

func c13Cfg() *DeclCfg {
	types := []TypeSpec{{K: KString}, {K: KString}, {K: KInt}, {K: KUint8}, {K: KFloat64}, {K: KDuration}, {K: KCelsius}, {K: KBool}, {K: KBool, W: WSlice},
		{K: KString, W: WSlice}, {K: KInt, W: WSlice}, {K: KString, W: WPtr}, {K: KString, W: WMap, MapKey: KString}, {K: KInt, W: WMap, MapKey: KString}, {K: KString, W: WFunc1}, {W: WFunc0}, {K: KInt, W: WFunc1Err}}
	return &DeclCfg{
		MaxDepth: 2, MaxFan: 2, PCmds: 65, Types: types, OptsMin: 2, OptsMax: 4, SubGroupsMax: 2, NestMax: 2,
		PInline: 25, PNameless: 6, PCmdTwin: 20, PInitial: 25, PNoIni: 12, PDupField: 25, PNamespace: 40, PShortOnly: 15, PLongOnly: 15, PDefault: 20, PBase: 20, PHidden: 5, PNoUnquote: 10, PChoices: 8,
		PExec: 30, PByTag: 50, PSubOptional: 100, PAliases: 10, PIniName: 35, NonASCII: true,
		ParserOpts: []flags.Options{0, flags.HelpFlag, flags.PassDoubleDash}, NsDelims: []string{"", ".", "-"},
	}
}

// groupTree lists the options reachable from group g (g and its nested groups), in declaration order.
func groupTree(g *Grp) []*Opt {
	// the library visits a group's own options first - including those of untagged nested structs, which are
	// scanned into the same group - and then its sub-groups, in declaration order
	var own []*Opt
	var subs []*Grp
	var collect func(x *Grp)
	collect = func(x *Grp) {
		own = append(own, x.Opts...)
		for _, sg := range x.Subs {
			if sg.Inline {
				collect(sg)
			} else {
				subs = append(subs, sg)
			}
		}
	}
	collect(g)
	for _, sg := range subs {
		own = append(own, groupTree(sg)...)
	}
	return own
}

// bestIniMatch applies the stated priority inside one group tree: ini-name (case-insensitively) > field name >
// namespaced long name > short name; the first declared wins among equals. visibleOnly leaves out no-ini options.
func bestIniMatch(d *Decl, g *Grp, name string, visibleOnly bool) *Opt {
	var best *Opt
	prio := 0
	for _, o := range groupTree(g) {
		if visibleOnly && o.NoIni {
			continue
		}
		if o.IniName != "" && strings.EqualFold(o.IniName, name) && prio < 4 {
			best, prio = o, 4
		}
		if o.Field == name && prio < 3 {
			best, prio = o, 3
		}
		if o.Long != "" && d.FullLong(o) == name && prio < 2 {
			best, prio = o, 2
		}
		if o.Short != 0 && string(o.Short) == name && prio < 1 {
			best, prio = o, 1
		}
	}
	return best
}

// resolveIniName: the groups a section denotes are consulted in order; a group whose best match is marked no-ini
// does not answer (entries before any header consult every group of the parser, outermost first).
func resolveIniName(d *Decl, groups []*Grp, name string) *Opt {
	for _, g := range groups {
		if best := bestIniMatch(d, g, name, false); best != nil && !best.NoIni {
			return best
		}
	}
	return nil
}

// resolveVisible: the reading in which no-ini options simply do not exist for the reader. The oracle judges
// only entries on which this reading and the group-by-group one agree.
func resolveVisible(d *Decl, groups []*Grp, name string) *Opt {
	return bestIniMatch(d, groups[0], name, true)
}

func preorderGroups(g *Grp) []*Grp {
	// (an untagged nested struct is not a group of its own in the library: its options and sub-groups belong to
	// the group it is nested in)
	var r []*Grp
	if !g.Inline {
		r = append(r, g)
	}
	for _, s := range g.Subs {
		r = append(r, preorderGroups(s)...)
	}
	return r
}

func randCase(r *Rand, s string) string {
	bs := []byte(s)
	for i, b := range bs {
		if r.Bool() {
			if b >= 'a' && b <= 'z' {
				bs[i] = b - 32
			} else if b >= 'A' && b <= 'Z' {
				bs[i] = b + 32
			}
		}
	}
	return string(bs)
}

func c13Run(c *Ctx) {
	if c.Sub("api?").Intn(8) == 3 {
		// options registered through the public AddOption API: entry vs. flag on two identical parsers
		apiMiniIniVsFlag(c)
		return
	}
	r := c.R
	d := GenDecl(c.Sub("d"), c13Cfg())
	if inHistTail(c, 32000, 1000000) {
		// one IniParser used for two reads while the program changes the model in between
		c.Case(func() interface{} { return map[string]interface{}{"declaration_after_the_change": d.Describe()} })
		if hl := histIniReuse(c, d); hl != "" && !c.Violated() {
			c.Held("history/ini-reuse/"+hl, fmt.Sprintf("opts=%d", minInt(len(d.Opts), 30)))
		}
		return
	}
	asDefaults := c.K%2 == 1
	form := []string{"ini-name", "field", "long", "short"}[(c.K/2)%4]
	crossing := int((c.K / 8) % 4) // 0 none; 1 ini-name=other's field; 2 field=other's long; 3 one-letter long = other's short
	// choose a section and the groups it denotes
	type sect struct {
		name   string
		groups []*Grp
		cmd    *Cmd
		pure   bool // a pure command path (no group description component)
	}
	var sects []sect
	var walk func(cm *Cmd, path string)
	addGroups := func(cm *Cmd, path string, g *Grp) {
		var rec func(x *Grp)
		rec = func(x *Grp) {
			if x.Desc != "" {
				n := x.Desc
				if path != "" {
					n = path + "." + x.Desc
				}
				sects = append(sects, sect{n, []*Grp{x}, cm, false})
			}
			for _, s := range x.Subs {
				rec(s)
			}
		}
		rec(g)
	}
	walk = func(cm *Cmd, path string) {
		if cm.Parent == nil {
			// entries before any section header address all of the parser's own groups
			sects = append(sects, sect{"", preorderGroups(cm.G), cm, false}, sect{"Application Options", []*Grp{cm.G}, cm, false})
			for _, s := range cm.G.Subs {
				addGroups(cm, "", s)
			}
		} else {
			sects = append(sects, sect{path, []*Grp{cm.G}, cm, true})
			if cm.G.ByAddGroup {
				addGroups(cm, path, cm.G)
			} else {
				for _, s := range cm.G.Subs {
					addGroups(cm, path, s)
				}
			}
		}
		for _, sc := range cm.Subs {
			p := sc.Name
			if path != "" {
				p = path + "." + sc.Name
			}
			walk(sc, p)
		}
	}
	walk(d.Root, "")
	// an Exec command's own struct is an AddGroup'ed group: its section [cmd] addresses the command's whole tree
	var usable []sect
	for _, s := range sects {
		if len(groupTree(s.groups[0])) > 0 {
			usable = append(usable, s)
		}
	}
	if len(usable) == 0 {
		return
	}
	se := usable[r.Intn(len(usable))]
	opts := groupTree(se.groups[0])
	target := opts[r.Intn(len(opts))]
	// crossing names on purpose
	if crossing != 0 && len(opts) >= 2 {
		var other *Opt
		var others []*Opt
		for _, o := range opts {
			if o != target && !o.NoIni {
				others = append(others, o)
			}
		}
		if len(others) > 0 {
			// either declaration order: the weaker match may come before or after the stronger one, in the same or
			// in an enclosing / nested group
			other = others[r.Intn(len(others))]
		}
		if other != nil {
			switch crossing {
			case 1:
				target.IniName = other.Field
			case 2:
				if len(other.NsChain()) == 0 && other.Long != "" {
					other.Long = target.Field
				}
			case 3:
				if target.Long != "" && len(target.NsChain()) == 0 && other.Short != 0 && other.Short < 128 {
					dup := false
					for _, o := range d.Opts {
						if o != target && o.Cmd == target.Cmd && d.FullLong(o) == string(other.Short) {
							dup = true
						}
					}
					if !dup {
						target.Long = string(other.Short)
					}
				}
			}
		}
	}
	var name string
	switch form {
	case "ini-name":
		if target.IniName == "" {
			target.IniName = fmt.Sprintf("ini%03d", target.ID)
		}
		name = randCase(r, target.IniName)
	case "field":
		name = target.Field
	case "long":
		name = d.FullLong(target)
	case "short":
		if target.Short != 0 {
			name = string(target.Short)
		}
	}
	if name == "" {
		name = target.Field
		form = "field"
	}
	target.NoIni = false
	// a second entry whose key differs from the first one only in letter case and names another option
	var twin *Opt
	twinKey := ""
	if form == "field" && name == target.Field && r.Chance(1, 3) {
		var cands []*Opt
		for _, o := range opts {
			if o != target && !o.NoIni && o.T.W == WScalar && !o.T.IsFlag() && len(o.NsChain()) == 0 && o.Long != "" && o.IniName == "" {
				cands = append(cands, o)
			}
		}
		if len(cands) > 0 {
			twin = cands[r.Intn(len(cands))]
			twinKey = strings.ToLower(name)
			twin.Long = twinKey
		}
	}
	resolved := resolveIniName(d, se.groups, name)
	if resolved == nil {
		c.Unspec("name does not resolve")
		return
	}
	if resolved.NoIni {
		c.Unspec("resolved option is marked no-ini")
		return
	}
	if resolveVisible(d, se.groups, name) != resolved {
		c.Unspec("a no-ini option competes for the key inside the denoted group")
		return
	}
	if twin != nil && (twin == resolved || resolveIniName(d, se.groups, twinKey) != twin || resolveVisible(d, se.groups, twinKey) != twin) {
		c.Unspec("case-variant key does not single out the second option")
		return
	}
	// same-priority ties are not generated: make sure the resolution is unique at its priority
	ties := 0
	for _, o := range groupTree(se.groups[0]) {
		if o.NoIni {
			continue
		}
		switch {
		case resolved.IniName != "" && strings.EqualFold(resolved.IniName, name):
			if o.IniName != "" && strings.EqualFold(o.IniName, name) {
				ties++
			}
		case resolved.Field == name:
			if o.Field == name {
				ties++
			}
		case d.FullLong(resolved) == name:
			if o.Long != "" && d.FullLong(o) == name {
				ties++
			}
		default:
			if o.Short != 0 && string(o.Short) == name {
				ties++
			}
		}
	}
	if ties > 1 {
		c.Unspec("same-priority tie")
		return
	}
	t := resolved.T
	// the resolved option must be addressable on the command line in its own command's context
	scope := d.ScopeOf(resolved.Cmd)
	var flagName string
	switch {
	case resolved.Long != "" && scope.Long[d.FullLong(resolved)] == resolved:
		flagName = "--" + d.FullLong(resolved)
	case resolved.Short != 0 && scope.Short[resolved.Short] == resolved:
		flagName = "-" + string(resolved.Short)
	default:
		c.Unspec("resolved option not addressable on the command line")
		return
	}
	// entries
	n := 1
	if t.IsMulti() || t.IsFunc() {
		n = r.Range(1, 3)
	}
	var iniLines, cliArgs []string
	quoted := !resolved.NoUnquote && !t.IsFlag() && r.Chance(1, 3)
	secName := se.name
	if secName != "" && !se.pure {
		// group descriptions are matched case-insensitively; a command path in front of them is kept as is
		if i := strings.LastIndex(secName, "."); i >= 0 {
			secName = secName[:i+1] + randCase(r, secName[i+1:])
		} else {
			secName = randCase(r, secName)
		}
	}
	// repeated entries may name the option in different ways: every spelling that resolves to the same option
	spellings := []string{name}
	for _, alt := range []string{resolved.Field, d.FullLong(resolved), string(resolved.Short), randCase(r, resolved.IniName)} {
		if alt == "" || alt == "\x00" || alt == name {
			continue
		}
		if resolveIniName(d, se.groups, alt) != resolved || resolveVisible(d, se.groups, alt) != resolved || (twin != nil && strings.EqualFold(alt, twinKey)) {
			continue
		}
		cnt := 0
		for _, o := range groupTree(se.groups[0]) {
			if (o.IniName != "" && strings.EqualFold(o.IniName, alt)) || o.Field == alt || (o.Long != "" && d.FullLong(o) == alt) || (o.Short != 0 && string(o.Short) == alt) {
				cnt++
			}
		}
		if cnt == 1 {
			spellings = append(spellings, alt)
		}
	}
	first := name
	falseFlag := false
	for i := 0; i < n; i++ {
		name := first
		if i > 0 {
			name = spellings[r.Intn(len(spellings))]
		}
		if t.IsFlag() {
			switch r.Intn(4) {
			case 0:
				iniLines = append(iniLines, name+" = true")
				cliArgs = append(cliArgs, flagName)
			case 1:
				iniLines = append(iniLines, name+" =")
				cliArgs = append(cliArgs, flagName)
			case 2:
				if t.W == WScalar && t.K == KBool && n == 1 {
					iniLines = append(iniLines, name+" = false")
					falseFlag = true
				} else {
					iniLines = append(iniLines, name+" = true")
					cliArgs = append(cliArgs, flagName)
				}
			default:
				iniLines = append(iniLines, "  "+name+"   =   true  ")
				cliArgs = append(cliArgs, flagName)
			}
			continue
		}
		v := GenValueText(r, resolved)
		if t.K == KString && !t.IsFunc() && len(resolved.Choices) == 0 && r.Chance(1, 12) {
			// a value longer than the INI reader's 4096-byte chunks
			long := strings.Repeat("w", r.Range(4085, 4200)) + fmt.Sprintf("-end%d", r.Intn(1000))
			if t.W == WMap {
				v = "k1:" + long
			} else {
				v = long
			}
		}
		if quoted {
			lit := strconv.Quote(v)
			if t.W == WMap {
				// the documented map form is key:"quoted value"
				i := strings.Index(v, ":")
				lit = v[:i+1] + strconv.Quote(v[i+1:])
				iniLines = append(iniLines, name+" = "+lit)
				cliArgs = append(cliArgs, flagName+"="+v)
				continue
			}
			iniLines = append(iniLines, name+" = "+lit)
			cliArgs = append(cliArgs, flagName+"="+lit)
			continue
		}
		// bare values must be transparent in both syntaxes
		if strings.TrimSpace(v) != v || strings.HasPrefix(v, "\"") || strings.ContainsAny(v, "\n\r") {
			v = GenScalarTextSimple(r, resolved)
		}
		if t.W == WMap && (strings.Index(v, ":") < 0 || strings.HasPrefix(v[strings.Index(v, ":")+1:], "\"")) {
			v = GenScalarTextSimple(r, resolved)
		}
		if strings.HasPrefix(v, "\x00") {
			c.Unspec("no transparent value available for this option")
			return
		}
		iniLines = append(iniLines, name+" = "+v)
		cliArgs = append(cliArgs, flagName+"="+v)
	}
	if twin != nil {
		v2 := GenScalarTextSimple(r, twin)
		if strings.HasPrefix(v2, "\x00") || d.ScopeOf(twin.Cmd).Long[twinKey] != twin {
			c.Unspec("no transparent value for the case-variant entry")
			return
		}
		at := r.Intn(len(iniLines) + 1)
		iniLines = append(iniLines[:at], append([]string{twinKey + " = " + v2}, iniLines[at:]...)...)
		cliArgs = append(cliArgs, "--"+twinKey+"="+v2)
	}
	text := ""
	if secName != "" {
		text = "[" + secName + "]\n"
	}
	if secName != "" && r.Chance(1, 5) {
		// the section's header appears first without entries (only a comment, or another section in between) and
		// is opened again later: its entries still count once each
		text += r.Pick([]string{"; nothing yet\n", "", "# later\n\n"})
		text += "[" + secName + "]\n" + strings.Join(iniLines, "\n") + "\n"
	} else if desc := se.groups[0].Desc; secName != "" && !se.pure && len(iniLines) >= 2 && desc != "" && len(secName) >= len(desc) && strings.EqualFold(secName[len(secName)-len(desc):], desc) && flipCase(desc) != "" && r.Chance(1, 2) {
		// the same group addressed by two spellings of its section name (descriptions are matched without regard
		// to case): two sections for the reader, one group - the entries accumulate across them
		k := r.Range(1, len(iniLines)-1)
		alt := secName[:len(secName)-len(desc)] + flipCase(secName[len(secName)-len(desc):])
		text += strings.Join(iniLines[:k], "\n") + "\n[" + alt + "]\n" + strings.Join(iniLines[k:], "\n") + "\n"
	} else if secName != "" && len(iniLines) >= 2 && r.Chance(1, 3) {
		// the same section re-opened: its entries still count once each
		k := r.Range(1, len(iniLines)-1)
		text += strings.Join(iniLines[:k], "\n") + "\n[" + secName + "]\n" + strings.Join(iniLines[k:], "\n") + "\n"
	} else {
		text += strings.Join(iniLines, "\n") + "\n"
	}
	var path []string
	for _, cm := range resolved.Cmd.Chain()[1:] {
		path = append(path, cm.Name)
	}
	c.Case(func() interface{} {
		return map[string]interface{}{"declaration": d.Describe(), "ini": text, "as_defaults": asDefaults, "name_form": form, "crossing": crossing,
			"intended": target.Field, "resolved": resolved.Field, "cli": fmt.Sprintf("%q", append(append([]string{}, path...), cliArgs...))}
	})
	// INI run
	bi := d.Build()
	if bi.Err != nil {
		c.Unspec("declaration rejected after renaming: " + bi.Err.Error())
		return
	}
	var iniErr, iniPErr error
	pi := safely(func() {
		ip := flags.NewIniParser(bi.P)
		ip.ParseAsDefaults = asDefaults
		iniErr = ip.Parse(strings.NewReader(text))
		if iniErr == nil {
			_, iniPErr = bi.P.ParseArgs(path)
		}
	})
	if pi != nil {
		c.Violate("panic:"+panicSite(pi.Stack), "INI run panicked: %s", pi.Value)
		return
	}
	snapI := d.Snapshot()
	logI := append([]CallEntry{}, bi.Log.E...)
	// CLI run
	bc := d.Build()
	var cliErr error
	pc := safely(func() { _, cliErr = bc.P.ParseArgs(append(append([]string{}, path...), cliArgs...)) })
	if pc != nil {
		c.Violate("panic:"+panicSite(pc.Stack), "CLI run panicked: %s", pc.Value)
		return
	}
	snapC := d.Snapshot()
	logC := append([]CallEntry{}, bc.Log.E...)
	c.Count("pairs", 1)
	mode := map[bool]string{true: "as-defaults", false: "normal"}[asDefaults]
	cell := fmt.Sprintf("%s/%s/cross%d", mode, form, crossing)
	if se.name == "" {
		cell += "/preamble"
	}
	if twin != nil {
		cell += "/case-variant-key"
	}
	iniFailed := iniErr != nil || iniPErr != nil
	if iniFailed != (cliErr != nil) {
		if iniPErr != nil && cliErr == nil {
			// e.g. a required option supplied by neither: both runs share it unless the flag itself differs
		}
		c.Violate("error-ness:"+mode+":"+form, "INI entry failed=%v (%v / %v) but the equivalent flags failed=%v (%v)", iniFailed, iniErr, iniPErr, cliErr != nil, cliErr)
		return
	}
	if iniFailed {
		c.Held(cell+"/both-rejected", t.String())
		return
	}
	if falseFlag {
		if got := snapI["o"+itoa(resolved.ID)]; got != "false" {
			c.Violate("flag-false", "`%s = false` stored %s", name, got)
			return
		}
		c.Held(cell+"/flag-false", t.String())
		return
	}
	for k, v := range snapC {
		if snapI[k] != v {
			kind := "scalar"
			if t.IsMulti() {
				kind = "multi"
			}
			which := "target"
			if k != "o"+itoa(resolved.ID) {
				which = "other-option"
			}
			c.Violate(fmt.Sprintf("value:%s:%s:%s:%s", mode, form, kind, which), "field %s: INI entry gives %s, the flag %s gives %s (entry %q resolved to %s)", k, snapI[k], flagName, v, name, resolved.Field)
			return
		}
	}
	if !eqCalls(logI, logC) {
		c.Violate("call-log:"+mode, "call log after INI %v, after flags %v", logI, logC)
		return
	}
	c.Held(cell, fmt.Sprintf("%s n=%d quoted=%v depth=%d", t, n, quoted, resolved.Cmd.Depth))
}

// GenScalarTextSimple: a transparent value (no surrounding blanks, no quotes, no line breaks).
func GenScalarTextSimple(r *Rand, o *Opt) string {
	for _, ch := range o.Choices {
		if strings.TrimSpace(ch) == ch && !strings.HasPrefix(ch, "\"") && !strings.ContainsAny(ch, "\n\r") && ch != "" {
			return ch
		}
	}
	if len(o.Choices) > 0 {
		return "\x00no-transparent-choice"
	}
	t := o.T
	one := func(k TK) string {
		switch k {
		case KString, KPicky, KVocab:
			return fmt.Sprintf("s%d", r.Intn(1000))
		}
		for i := 0; i < 20; i++ {
			v := GenScalarText(r, k, o.Base, 0)
			if strings.TrimSpace(v) == v && !strings.HasPrefix(v, "\"") {
				return v
			}
		}
		return "0"
	}
	if t.W == WMap {
		return one(t.MapKey) + ":" + one(t.K)
	}
	return one(t.K)
}

func init() {
	register(&Property{
		ID:    "C13",
		Title: "An INI entry means the same as the corresponding command-line flag",
		Cases: func(tier string) int64 {
			switch tier {
			case "thorough":
				return 1000000 + 83333 // + history cases
			case "race":
				return 0
			}
			return 32000 + 2666 // + history cases
		},
		Run:           c13Run,
		MinNontrivial: 300,
		Rule: "1 case in 8: two identical parsers built through the API only (1-3 options registered with AddOption, possibly two that share a long name and differ by the namespace of their group): --name=V occurrences on one, the corresponding entries (effective long name or short name; normal and as-defaults mode) on the other, all variables compared. case k: reading mode = {normal, as-defaults}[k mod 2], naming form = {ini-name in random case, field name, namespaced long name, short name}[k/2 mod 4], crossing pattern = {none, A's ini-name = B's field name, A's field name = B's long name, A's one-letter long name = B's short name}[k/8 mod 4]; a random declaration (nested namespaced groups, commands to depth 2 incl. Commander nodes with AddGroup'ed groups, non-ASCII short names), a section chosen among {preamble, group description in random case, dotted command path, command path + group description} and 1-3 entries (bare transparent values or Go string literals; flag forms true / empty / false). " +
			"Oracle (metamorphic + priority resolver): IniParser.Parse followed by ParseArgs(command path) on one fresh parser versus ParseArgs(command path + --flag=value per entry) on another, where the flag is that of the option the name should resolve to by the stated priority: equal value snapshots, equal call logs, equal error-ness. distinct = (mode, form, crossing, type, #entries, quoted, depth).",
		Assumptions: []string{"`flag = false` has no command-line counterpart: only 'stores false' is asserted", "same-priority ties are not generated", "options with unquote:\"false\" get bare values only"},
		Technique:   "runtime metamorphic monitor: INI run versus equivalent-flags run on two fresh parsers, with an independent name-priority resolver choosing the denoted option; multi-step histories on one parser with direct oracles",
		LevelText:   "Exploration over naming forms x crossing patterns x sections x modes; metamorphic, so no expected values are needed beyond the priority rule the statement spells out.",
		LevelNote:   "Trusted: the priority resolver (a transcription of the statement) and the section model.",
		DesignRef:   "§4 C13",
	})
}
