package main

import (
	"fmt"
	"os"
	"sort"
	"strings"

	flags "github.com/jessevdk/go-flags"
)

// C18: completion offers exactly the valid continuations.

func c18Cfg(opts flags.Options) *DeclCfg {
	types := []TypeSpec{{K: KString}, {K: KBool}, {K: KBool}, {K: KInt}, {K: KString, W: WSlice}, {K: KVocab}, {K: KVocab}, {K: KVocab, W: WSlice}, {K: KBool, W: WSlice}, {K: KFloat64}, {K: KMode, W: WPtr}, {K: KMode, W: WPtr}}
	return &DeclCfg{
		MaxDepth: 3, MaxFan: 4, PCmds: 70, Types: types, OptsMin: 1, OptsMax: 4, SubGroupsMax: 1, PInline: 20, NestMax: 1,
		PNamespace: 30, PShortOnly: 15, PLongOnly: 25, PHidden: 20, PHiddenCmd: 20, PProgAttr: 30, POptional: 15, PDesc: 40,
		PPos: 30, PosMax: 2, PRest: 30, PExec: 30, PByTag: 50, PSubOptional: 40, PAliases: 30, NonASCII: true, PClash: 25,
		ParserOpts: []flags.Options{opts}, PosTypes: []TypeSpec{{K: KString}, {K: KVocab}, {K: KVocab}},
	}
}

func c18Complete(b *Built, args []string) ([]flags.Completion, int, *PanicInfo) {
	var got []flags.Completion
	calls := 0
	b.P.CompletionHandler = func(items []flags.Completion) {
		calls++
		got = append(got, items...)
	}
	os.Setenv("GO_FLAGS_COMPLETION", "1")
	pi := safely(func() { b.P.ParseArgs(args) })
	os.Unsetenv("GO_FLAGS_COMPLETION")
	return got, calls, pi
}

func itemsOf(cs []flags.Completion) []string {
	var r []string
	for _, c := range cs {
		r = append(r, c.Item)
	}
	return r
}

func vocabWith(prefix string) []string {
	var r []string
	for _, w := range vocabulary {
		if strings.HasPrefix(w, prefix) {
			r = append(r, w)
		}
	}
	return r
}

func c18Run(c *Ctx) {
	if c.Sub("api?").Intn(16) == 3 {
		// options registered through the public AddOption API in completion
		apiMiniComplete(c)
		return
	}
	r := c.R
	opts := flags.Options(flags.PassDoubleDash)
	// (PassAfterNonOption is not combined with completion here: on the unchanged library completion keeps offering
	// options and commands after the first plain word although the parser passes everything through from there -
	// the statement does not say which of the two is "the valid continuation", so that combination is unspecified)
	if c.K%3 == 0 {
		opts |= flags.HelpFlag
	}
	d := GenDecl(c.Sub("d"), c18Cfg(opts))
	// long names that are proper prefixes of other long names of the same group (--log beside --log-level)
	for _, g := range d.Grps {
		var ls []*Opt
		for _, o := range g.Opts {
			if o.Long != "" {
				ls = append(ls, o)
			}
		}
		if len(ls) >= 2 && r.Chance(1, 2) {
			ls[1].Long = ls[0].Long + r.Pick([]string{"-level", "x", "2"})
		}
		if len(ls) >= 3 && r.Chance(1, 3) {
			ls[2].Long = ls[0].Long + "-file"
		}
	}
	// hidden items whose names share a one-letter prefix with visible ones: long names all start with "o",
	// command names with "c" by construction.
	class := []string{"long-partial", "bare-dashes", "bare-dash", "value-long-eq", "value-short-eq", "value-short-attached", "value-separate", "command-partial", "positional-value", "after-plain-arg", "short-partial"}[(c.K/3)%11]
	var target *Cmd
	if len(d.Cmds) > 1 && r.Chance(3, 4) {
		target = d.Cmds[r.Intn(len(d.Cmds))]
	}
	sc := GenScenario(r, d, &ScenCfg{MaxItems: 7, POcc: 45, PCluster: 15, PPos: 15, PCmd: 25, PTerm: 0, PQuoted: 0, Target: target, NoRest: true})
	if sc.Exp.Unspec != "" {
		c.Unspec(sc.Exp.Unspec)
		return
	}
	// cut the scenario at a random item boundary: any prefix of a valid vector is a valid prefix
	cut := r.Intn(len(sc.Items) + 1)
	items := sc.Items[:cut]
	dn := Denote(d, items)
	if dn.Broken != "" {
		c.Unspec(dn.Broken)
		return
	}
	cur := dn.Final
	scope := d.ScopeOf(cur)
	// positionals still pending in the context reached
	pending := 0
	pendingVocab := false
	if cur.Pos != nil {
		for _, a := range cur.Pos.Args {
			if a.IsRest() || len(dn.Exp.PosVals[a]) == 0 {
				if pending == 0 {
					pendingVocab = a.T.K == KVocab
				}
				pending++
			}
		}
	}
	prefix := RenderItems(d, items)
	help := opts&flags.HelpFlag != 0
	// visible names in scope
	var visLong []string
	for n, o := range scope.Long {
		if !o.Hidden {
			visLong = append(visLong, n)
		}
	}
	if help {
		visLong = append(visLong, "help")
	}
	sort.Strings(visLong)
	var last string
	var want []string
	specified := true
	pick := func(pred func(o *Opt) bool) *Opt {
		var cands []*Opt
		for _, o := range scope.Addressable(d) {
			if pred(o) {
				cands = append(cands, o)
			}
		}
		if len(cands) == 0 {
			return nil
		}
		return cands[r.Intn(len(cands))]
	}
	isVocabOpt := func(o *Opt) bool {
		// (an optional-argument option takes its value only attached: -cV, -c=V, --name=V)
		return (o.T.K == KVocab || o.T.K == KMode) && (!o.Optional || class != "value-separate")
	}
	switch class {
	case "long-partial", "bare-dashes":
		part := ""
		if class == "long-partial" && len(visLong) > 0 {
			n := visLong[r.Intn(len(visLong))]
			part = n[:r.Intn(len(n)+1)]
			if r.Chance(1, 6) {
				part += "zz"
			}
		}
		last = "--" + part
		for _, n := range visLong {
			if strings.HasPrefix(n, part) {
				want = append(want, "--"+n)
			}
		}
	case "bare-dash":
		last = "-"
		listedShort := map[rune]bool{}
		for n, o := range scope.Long {
			if !o.Hidden {
				want = append(want, "--"+n)
				listedShort[o.Short] = true
			}
		}
		if help {
			want = append(want, "--help")
			listedShort['h'] = true
		}
		for ru, o := range scope.Short {
			if o.Hidden {
				continue
			}
			if listedShort[ru] {
				// listed through a long name - unless that long name belongs to a different option
				byLong := false
				if o.Long != "" && scope.Long[d.FullLong(o)] == o {
					byLong = true
				}
				if !byLong {
					specified = false // a visible option is masked by another option's short rune
				}
				continue
			}
			want = append(want, "-"+string(ru))
		}
		// hidden option that owns a short rune which a visible long-listed option also carries: fine
	case "value-long-eq", "value-short-eq", "value-short-attached", "value-separate":
		o := pick(func(o *Opt) bool {
			if !isVocabOpt(o) {
				return false
			}
			switch class {
			case "value-long-eq":
				return o.Long != "" && scope.Long[d.FullLong(o)] == o
			case "value-separate":
				return true
			}
			return o.Short != 0 && scope.Short[o.Short] == o
		})
		if o == nil {
			c.Unspec("no completable option in scope")
			return
		}
		part := []string{"", "a", "al", "alp", "b", "beta", "z", "al p"}[r.Intn(8)]
		var re string
		switch class {
		case "value-long-eq":
			re = "--" + d.FullLong(o) + "="
			last = re + part
		case "value-short-eq":
			re = "-" + string(o.Short) + "="
			last = re + part
		case "value-short-attached":
			re = "-" + string(o.Short)
			last = re + part
			if part == "" || part[0] == '=' {
				c.Unspec("attached form needs a non-empty partial value")
				return
			}
		case "value-separate":
			if o.Long != "" && scope.Long[d.FullLong(o)] == o && r.Bool() {
				prefix = append(prefix, "--"+d.FullLong(o))
			} else if o.Short != 0 && scope.Short[o.Short] == o {
				prefix = append(prefix, "-"+string(o.Short))
			} else {
				prefix = append(prefix, "--"+d.FullLong(o))
			}
			last = part
		}
		for _, w := range vocabWith(part) {
			want = append(want, re+w)
		}
	case "command-partial":
		if pending > 0 {
			class = "positional-value"
		}
		var names []string
		for _, sc := range cur.Subs {
			if !sc.Hidden {
				names = append(names, sc.Name)
			}
		}
		part := ""
		if len(names) > 0 {
			n := names[r.Intn(len(names))]
			part = n[:r.Intn(len(n)+1)]
		} else if r.Bool() {
			part = "c"
		}
		last = part
		if pending > 0 {
			if pendingVocab {
				want = vocabWith(part)
			}
		} else {
			for _, n := range names {
				if strings.HasPrefix(n, part) {
					want = append(want, n)
				}
			}
		}
	case "positional-value":
		if pending == 0 {
			c.Unspec("no positional pending")
			return
		}
		part := []string{"", "a", "al", "b", "g", "zz"}[r.Intn(6)]
		last = part
		if pendingVocab {
			want = vocabWith(part)
		}
	case "after-plain-arg":
		// optional sub-commands: a command word that follows a plain argument is an ordinary argument
		if !(len(cur.Subs) > 0 && cur.SubOptional && cur.Pos == nil) {
			c.Unspec("context has no optional sub-commands")
			return
		}
		sub := cur.Subs[r.Intn(len(cur.Subs))]
		prefix = append(prefix, fmt.Sprintf("plain%d", r.Intn(100)), sub.Name)
		last = "--"
		for _, n := range visLong {
			want = append(want, "--"+n)
		}
	case "short-partial":
		var rs []rune
		for ru := range scope.Short {
			rs = append(rs, ru)
		}
		if len(rs) == 0 {
			c.Unspec("no short options")
			return
		}
		sort.Slice(rs, func(i, j int) bool { return rs[i] < rs[j] })
		o := scope.Short[rs[r.Intn(len(rs))]]
		if !o.T.IsFlag() {
			c.Unspec("short option takes an argument")
			return
		}
		last = "-" + string(o.Short)
		specified = false // echoing the partial short option back is pinned by the unit tests; only sortedness is asserted
	}
	sort.Strings(want)
	args := append(append([]string{}, prefix...), last)
	b := d.Build()
	if b.Err != nil {
		c.Violate("setup-error", "generated declaration rejected: %v", b.Err)
		return
	}
	c.Case(func() interface{} {
		return map[string]interface{}{"declaration": d.Describe(), "words": fmt.Sprintf("%q", args), "class": class, "context": cur.Name, "pending_positionals": pending}
	})
	got, calls, pi := c18Complete(b, args)
	c.Count("completions", 1)
	if pi != nil {
		c.Violate("panic:"+panicSite(pi.Stack), "completion panicked: %s", pi.Value)
		return
	}
	if calls != 1 {
		c.Violate("handler-calls", "CompletionHandler called %d times", calls)
		return
	}
	for _, e := range b.Log.E {
		if e.Kind == "execute" {
			c.Violate("executed-in-completion-mode", "a command ran in completion mode")
			return
		}
	}
	gi := itemsOf(got)
	c.Count("items_observed", int64(len(gi)))
	if !sort.StringsAreSorted(gi) {
		c.Violate("unsorted", "completion list is not sorted: %q", gi)
		return
	}
	// a group registered after the parser has already served a completion is offered in the same context
	lateStage := ""
	if c.K%4 == 2 && specified && (class == "long-partial" || class == "bare-dashes" || class == "command-partial" || class == "after-plain-arg") {
		late := &struct {
			Late  string `long:"zz-late"`
			Flag  bool   `long:"zz-late-flag"`
			Color Vocab  `long:"zz-late-color"`
		}{}
		chain := cur.Chain()
		host := chain[r.Intn(len(chain))]
		var aerr error
		latePrefix := ""
		if r.Chance(1, 3) && d.resolveLive(b) == "" {
			// nested into an existing group with Group.AddGroup (the default group of the parser, a command's own
			// group or one of their sub-groups)
			var gs []*Grp
			var rec func(g *Grp)
			rec = func(g *Grp) {
				if g.FG != nil {
					gs = append(gs, g)
				}
				for _, sg := range g.Subs {
					rec(sg)
				}
			}
			rec(host.G)
			if len(gs) > 0 {
				hg := gs[r.Intn(len(gs))]
				_, aerr = hg.FG.AddGroup("Late Options", "", late)
				lateStage = "group"
				// the new options inherit the namespaces of the groups they were nested into
				for g := hg; g != nil; g = g.Parent {
					if g.Namespace != "" {
						latePrefix = g.Namespace + d.nsDelim() + latePrefix
					}
				}
			}
		}
		if lateStage != "" {
		} else if host.Parent == nil {
			_, aerr = b.P.AddGroup("Late Options", "", late)
			lateStage = "parser"
		} else if host.FC != nil {
			_, aerr = host.FC.AddGroup("Late Options", "", late)
			lateStage = "command"
		}
		if aerr != nil {
			c.Violate("late-group:rejected", "AddGroup after the first completion failed: %v", aerr)
			return
		}
		if lateStage != "" {
			for _, q := range []struct {
				last string
				want []string
			}{
				{"--" + latePrefix + "zz-la", []string{"--" + latePrefix + "zz-late", "--" + latePrefix + "zz-late-color", "--" + latePrefix + "zz-late-flag"}},
				{"--" + latePrefix + "zz-late-color=al", []string{"--" + latePrefix + "zz-late-color=al pha", "--" + latePrefix + "zz-late-color=alpha", "--" + latePrefix + "zz-late-color=alps"}},
			} {
				args2 := append(append([]string{}, prefix...), q.last)
				got2, _, pi2 := c18Complete(b, args2)
				c.Count("completions", 1)
				if pi2 != nil {
					c.Violate("late-group:panic", "completion after AddGroup panicked: %s", pi2.Value)
					return
				}
				if g2 := itemsOf(got2); !eqStrs(g2, q.want) {
					c.Violate("late-group:wrong-list", "a group added to the %s after the first completion: words %q offered %q, expected %q", lateStage, args2, g2, q.want)
					return
				}
			}
		}
	}
	// Command.Aliases and Command.Name are public fields: a program that installs user-defined aliases (or renames
	// a command) after the parser has already served a completion reaches the same context through the new word
	if c.K%4 == 0 && specified && cur.Parent != nil && (class == "long-partial" || class == "bare-dashes" || class == "command-partial" || class == "after-plain-arg") && d.resolveLive(b) == "" {
		chain := cur.Chain()
		cm := chain[1+r.Intn(len(chain)-1)]
		at, n := -1, 0
		for i, w := range prefix {
			if w == cm.Name {
				at, n = i, n+1
			}
			for _, a := range cm.Aliases {
				if w == a {
					at, n = i, n+1
				}
			}
		}
		if n == 1 && cm.FC != nil {
			nw := fmt.Sprintf("zzal%d", d.NewID())
			how := "alias-added"
			oldName := cm.FC.Name
			if r.Bool() {
				cm.FC.Aliases = append(cm.FC.Aliases, nw)
			} else {
				how = "command-renamed"
				cm.FC.Name = nw
			}
			args2 := append(append([]string{}, prefix...), last)
			args2[at] = nw
			got2, _, pi2 := c18Complete(b, args2)
			c.Count("completions", 1)
			cm.FC.Name = oldName
			if pi2 != nil {
				c.Violate("late-"+how+":panic", "completion after the change panicked: %s", pi2.Value)
				return
			}
			if g2 := itemsOf(got2); !eqStrs(g2, gi) {
				c.Violate("late-"+how+":wrong-list", "%s (%q for command %q) after the first completion: words %q offered %q, but %q offered %q", how, nw, cm.Name, args2, g2, args, gi)
				return
			}
			lateStage = how
		}
	}
	// the parser's own parse of the same prefix reaches the same command context
	b2 := d.Build()
	var active []string
	pi2 := safely(func() {
		b2.P.ParseArgs(append([]string{}, prefix...))
		for x := b2.P.Command.Active; x != nil && len(active) < 64; x = x.Active {
			active = append(active, x.Name)
		}
	})
	if pi2 != nil {
		c.Violate("panic:parse-prefix", "parsing the prefix panicked: %s", pi2.Value)
		return
	}
	pendingOptArg := class == "value-separate"
	if !pendingOptArg && !eqStrs(active, chainNames(cur.Chain())) {
		c.Violate("parser-context", "the parser reaches context %v on the prefix, the intent says %v", active, chainNames(cur.Chain()))
		return
	}
	if !specified {
		c.Unspec("outside the three enumerated cases (short partial echo / masked short rune)")
		return
	}
	if !eqStrs(gi, want) && !(len(gi) == 0 && len(want) == 0) {
		// classify
		var extra, missing []string
		ws := map[string]bool{}
		for _, w := range want {
			ws[w] = true
		}
		gs := map[string]bool{}
		for _, g := range gi {
			gs[g] = true
			if !ws[g] {
				extra = append(extra, g)
			}
		}
		for _, w := range want {
			if !gs[w] {
				missing = append(missing, w)
			}
		}
		kind := "wrong-list"
		for _, e := range extra {
			for _, o := range d.Opts {
				if o.Hidden && o.Long != "" && e == "--"+d.FullLong(o) && scope.Long[d.FullLong(o)] == o {
					kind = "hidden-offered"
				}
			}
			for _, cm := range d.Cmds[1:] {
				if cm.Hidden && e == cm.Name {
					kind = "hidden-offered"
				}
			}
		}
		c.Violate(class+":"+kind, "words %q: offered %q, expected %q (extra %q, missing %q)", args, gi, want, extra, missing)
		return
	}
	// every offered option or command is accepted by the parser at that position
	if class == "long-partial" || class == "bare-dashes" || class == "bare-dash" || class == "command-partial" || class == "after-plain-arg" {
		for _, it := range gi {
			b3 := d.Build()
			var err error
			safely(func() { _, err = b3.P.ParseArgs(append(append([]string{}, prefix...), it)) })
			if fe, ok := err.(*flags.Error); ok && (fe.Type == flags.ErrUnknownFlag || fe.Type == flags.ErrUnknownCommand) {
				c.Violate(class+":offered-but-rejected", "offered %q but the parser rejects it after %q: %v", it, prefix, err)
				return
			}
			c.Count("acceptance_parses", 1)
		}
	}
	if lateStage == "alias-added" || lateStage == "command-renamed" {
		class += "+late-" + lateStage
	} else if lateStage != "" {
		class += "+late-group-on-" + lateStage
	}
	c.Held(class, fmt.Sprintf("n=%d depth=%d prefix=%d help=%v", minInt(len(gi), 12), cur.Depth, minInt(len(prefix), 8), help))
}

func init() {
	register(&Property{
		ID:    "C18",
		Title: "Completion offers exactly the valid continuations",
		Cases: func(tier string) int64 {
			switch tier {
			case "thorough":
				return 1300000
			case "race":
				return 0
			}
			return 44000
		},
		Run:           c18Run,
		MinNontrivial: 300,
		Rule: "1 case in 16: a parser built through the API only (options registered with AddOption, some hidden, some short-only; parser / namespaced group / command homes): the words -, -- and partial long names complete to exactly the visible options in scope. case k: a command tree (depth <=3, hidden options and commands 20% whose names share the first letter with visible ones, Completer-typed options/positionals, non-ASCII short names, optional arguments, Commander nodes), a valid intent prefix (options with separate and attached arguments, clusters incl. one ending in an argument-taking flag, command words, positionals) cut at a random item boundary, and a partial last word of class (k/3 mod 11): partial long name of every length 0..len (+ impossible suffix), bare --, bare -, partial value in the forms --opt=, -o=, -oV and separate token, partial command name, partial positional value, a command word after a plain argument with optional sub-commands, non-empty short partial. " +
			"Oracle: CompletionHandler called once, nothing executed, list sorted, list == expected set computed from the intent context (visible options in scope / vocabulary entries re-attached to the spelling / visible sub-command names; nothing while a positional is pending), every offered option or command is accepted by the real parser at that position, and the parser's own parse of the prefix reaches the same context. distinct = (class, list size, depth, prefix length).",
		Assumptions: []string{"a non-empty short partial (-v) is echoed back by design (unit-tested): only sortedness/no-panic asserted", "options inside hidden groups, PassAfterNonOption, IgnoreUnknown and the terminator are not combined with completion", "a visible short-only option whose rune is also the short name of a long-listed option is unspecified for the bare dash"},
		Technique:   "runtime reference-model monitor: completion lists compared with the continuation set derived from the intent context, cross-checked against the real parser (acceptance of every offered item, same command context); multi-step histories on one parser with direct oracles",
		LevelText:   "Exploration over prefixes x partial-word classes with an exact expected set and two cross-checks against the real parser; appropriate because completion re-implements the argument walk and agreement is a claim over all prefixes.",
		LevelNote:   "Trusted: the scope/visibility model and the intent walker.",
		DesignRef:   "§4 C18",
	})
}
