package main

import (
	"fmt"
	"math/big"
	"os"
	"reflect"
	"strconv"
	"strings"

	flags "github.com/jessevdk/go-flags"
)

// C11: values are converted exactly or rejected.

var c11IntKinds = []TK{KInt, KInt8, KInt16, KInt32, KInt64, KUint, KUint8, KUint16, KUint32, KUint64}

func c11IntValues(k TK) []*big.Int {
	lo, hi := intRange(k)
	one := big.NewInt(1)
	var vs []*big.Int
	add := func(v *big.Int) { vs = append(vs, new(big.Int).Set(v)) }
	for _, b := range []*big.Int{lo, hi} {
		add(new(big.Int).Sub(b, one))
		add(b)
		add(new(big.Int).Add(b, one))
	}
	add(big.NewInt(-1))
	add(big.NewInt(0))
	add(big.NewInt(1))
	for _, e := range []uint{7, 8, 15, 16, 31, 32, 63, 64} {
		p := new(big.Int).Lsh(one, e)
		for _, s := range []int64{1, -1} {
			q := new(big.Int).Mul(p, big.NewInt(s))
			add(new(big.Int).Sub(q, one))
			add(q)
			add(new(big.Int).Add(q, one))
		}
	}
	return vs // 9 + 48 = 57
}

var c11Spell = []string{"plain", "leading-zeros", "upper", "plus"}

var c11Floats = []string{
	"0", "-0", "1", "-1", "0.1", "0.2", "0.3", "1.5", "-2.5", "1e10", "1E10", "1e-10", "3.4028234663852886e38", "3.4028235e38", "3.4028236e38", "3.40282356779733661637539395458142568448e38",
	"3.5e38", "-3.5e38", "1.7976931348623157e308", "1.7976931348623158e308", "1.7976931348623159e308", "1.8e308", "-1.8e308", "1e309", "4.9e-324", "2.4e-324", "2.5e-324", "1e-400", "1.401298464324817e-45", "0.7e-45", "1e-46",
	"16777216", "16777217", "16777218", "16777219", "1.00000017881393432617187500", "1.00000017881393421514957253748434595763683319091796875", "1.00000017881393432617187501",
	"9007199254740993", "9007199254740992", "123456789012345678901234567890", "0.000000000000000000000000000001", "1.", ".5", "+1.5", "1e+5", "1e", "e5", "1.5.5", "1,5", " 1.5", "1.5 ", "", "abc", "0x1p4", "0x10", "1_000.5", "Inf", "-Inf", "+Inf", "inf", "NaN", "nan", "infinity", "1e5000", "1e-5000", "--1", "1-", "٣",
	"0.1e1", "100e-2", "5e-1", "0.5e0", "1.0000000000000002220446049250313", "1.00000000000000011102230246251565404236316680908203125", "1.00000000000000011102230246251565404236316680908203126",
}

var c11Durations = []string{
	"0", "1ns", "1us", "1µs", "1μs", "1ms", "1s", "1m", "1h", "1h1m1s", "1.5h", "1.5ms", "0.5s", "-1s", "+1s", "1.5ns", "0.0000001ms", "2562047h47m16.854775807s", "2562047h47m16.854775808s", "-2562047h47m16.854775808s", "-2562047h47m16.854775809s",
	"9223372036854775807ns", "9223372036854775808ns", "-9223372036854775808ns", "2562048h", "106751d", "1d", "1", "", "s", "1 s", " 1s", "1s ", "1S", "1sec", "1h-1m", "1e3s", ".5s", "5.s", ".s", "1.2.3s", "3000000h", "153722867m", "153722868m", "9223372036s", "9223372037s",
	"0s", "00h", "1h0m0s", "-0", "+0", "1ns1ns", "1.000001ms", "0.000001ms", "0.0000001s",
}

func c11RandFloat(r *Rand) string {
	var sb strings.Builder
	if r.Chance(1, 3) {
		sb.WriteByte('-')
	}
	n := r.Range(1, 25)
	dot := r.Intn(n + 1)
	for i := 0; i < n; i++ {
		if i == dot && i > 0 {
			sb.WriteByte('.')
		}
		sb.WriteByte(byte('0' + r.Intn(10)))
	}
	if r.Bool() {
		sb.WriteString(fmt.Sprintf("e%d", r.Intn(700)-350))
	}
	return sb.String()
}

type c11Case struct {
	T      TypeSpec
	Base   int
	Text   string
	Via    string // cli | ini | default
	Choice []string
	// Unquote: the option keeps the default unquote behaviour (a command-line argument that starts with a double
	// quote is read as a Go string literal)
	Unquote bool
}

func c11Gen(c *Ctx) (cs c11Case, cell string) {
	r := c.R
	k := c.K
	nInt := int64(len(c11IntKinds) * 35 * 57 * len(c11Spell))
	cs.Via = "cli"
	switch {
	case k < nInt:
		kind := c11IntKinds[k%10]
		k /= 10
		base := int(k%35) + 2
		k /= 35
		vs := c11IntValues(kind)
		v := vs[k%57]
		k /= 57
		sp := c11Spell[k%4]
		txt := v.Text(base)
		neg := strings.HasPrefix(txt, "-")
		body := strings.TrimPrefix(txt, "-")
		switch sp {
		case "leading-zeros":
			body = "00" + body
		case "upper":
			body = strings.ToUpper(body)
		case "plus":
			if !neg {
				body = "+" + body
			}
		}
		if neg {
			body = "-" + body
		}
		cs.T, cs.Base, cs.Text = TypeSpec{K: kind}, base, body
		if base == 10 && r.Chance(1, 2) {
			cs.Base = 0 // no base tag at all
		}
		return cs, fmt.Sprintf("int/%s/%s", kind, sp)
	}
	k -= nInt
	sect := k % 10
	wraps := []Wrap{WScalar, WScalar, WPtr, WSlice, WSlicePtr, WFunc1}
	w := wraps[r.Intn(len(wraps))]
	switch sect {
	case 0, 1: // floats
		kind := []TK{KFloat32, KFloat64}[r.Intn(2)]
		if r.Chance(2, 3) {
			cs.Text = c11Floats[r.Intn(len(c11Floats))]
		} else {
			cs.Text = c11RandFloat(r)
		}
		cs.T = TypeSpec{K: kind, W: w}
		cell = fmt.Sprintf("float/%s", kind)
	case 2: // durations
		if r.Chance(3, 4) {
			cs.Text = c11Durations[r.Intn(len(c11Durations))]
		} else {
			cs.Text = GenScalarText(r, KDuration, 0, 0)
		}
		cs.T = TypeSpec{K: KDuration, W: w}
		cell = "duration"
	case 3: // random integers with hostile decoration
		kind := c11IntKinds[r.Intn(10)]
		base := []int{10, 10, 16, 2, 8, 36, 7}[r.Intn(7)]
		txt := GenScalarText(r, kind, base, 0)
		switch r.Intn(10) {
		case 7, 8:
			// digit separators are Go source syntax, not part of any declared base: 1_000, 0_17, 0x_ff, 0b1_1
			if r.Bool() && len(txt) > 1 {
				i := 1 + r.Intn(len(txt)-1)
				txt = txt[:i] + "_" + txt[i:]
			} else {
				txt = []string{"1_000", "0_17", "0x_ff", "0b1_1", "0_755", "1__0", "_1", "0o_7", "-1_0", "+0_1"}[r.Intn(10)]
				if r.Bool() {
					base = 10
				}
			}
		case 0:
			txt = " " + txt
		case 1:
			txt += " "
		case 2:
			txt = "0x" + txt
		case 3:
			txt += "_0"
		case 4:
			txt = ""
		case 5:
			txt += "."
		case 6:
			txt += string(rune('a' + r.Intn(26)))
		}
		cs.T, cs.Base, cs.Text = TypeSpec{K: kind, W: w}, base, txt
		cell = "int-decorated/" + kind.String()
	case 4: // maps
		mt := []TypeSpec{{K: KString, W: WMap, MapKey: KString}, {K: KInt8, W: WMap, MapKey: KString}, {K: KString, W: WMap, MapKey: KInt}, {K: KFloat32, W: WMap, MapKey: KUint8}, {K: KBool, W: WMap, MapKey: KString}, {K: KDuration, W: WMap, MapKey: KString}}
		cs.T = mt[r.Intn(len(mt))]
		key := GenScalarText(r, cs.T.MapKey, 0, 0)
		if cs.T.MapKey == KString {
			key = []string{"k", "key with space", "é", "", "k=1"}[r.Intn(5)]
		}
		val := GenScalarText(r, cs.T.K, 0, 0)
		if cs.T.K == KString && r.Chance(1, 4) {
			val = r.Pick([]string{"\"x y\"", "\"", "\"open", "\"a\\tb\"", "\"\"", "\"q\" tail"})
		}
		switch r.Intn(8) {
		case 0:
			cs.Text = key
		case 1:
			cs.Text = key + ":"
		case 2:
			cs.Text = ":" + val
		case 3:
			cs.Text = key + ":" + val + ":w"
		case 4:
			cs.Text = key + ":" + "zz"
		case 5:
			cs.Text = "300:" + val
		default:
			cs.Text = key + ":" + val
		}
		cell = "map/" + cs.T.String()
	case 5: // bools through func(bool) and unmarshalers, strings
		switch r.Intn(4) {
		case 0:
			cs.T = TypeSpec{K: KBool, W: WFunc1}
			cs.Text = []string{"true", "false", "1", "0", "t", "T", "TRUE", "yes", "no", "", "True", " true", "tRuE", "2"}[r.Intn(14)]
			cell = "bool-arg"
		case 1:
			cs.T = TypeSpec{K: KCelsius, W: w}
			cs.Text = []string{"12C", "-40C", "32767C", "32768C", "-32768C", "-32769C", "12", "C", "12c", "1.5C", " 12C", "+5C", ""}[r.Intn(13)]
			cell = "unmarshaler-value"
		case 2:
			cs.T = TypeSpec{K: KPoint, W: []Wrap{WScalar, WPtr, WSlice, WSlicePtr}[r.Intn(4)]}
			cs.Text = []string{"1,2", "-3,4", "1", "1,2,3", "a,b", "2147483647,0", "2147483648,0", ",", "1, 2"}[r.Intn(9)]
			cell = "unmarshaler-pointer"
		default:
			cs.T = TypeSpec{K: KString, W: w}
			cs.Text = GenString(r, r.Intn(12))
			if strings.HasPrefix(cs.Text, "\"") {
				cs.Text = "s" + cs.Text
			}
			cell = "string"
		}
	case 8: // prefix-implied base, bool-kinded and key-position unmarshalers
		switch r.Intn(3) {
		case 0:
			kind := c11IntKinds[r.Intn(10)]
			cs.T, cs.Base = TypeSpec{K: kind, W: w}, BaseAuto
			switch r.Intn(3) {
			case 0:
				cs.Text = []string{"0", "00", "0x0", "0xFF", "0Xff", "0x7f", "0x80", "-0x80", "-0x81", "0o17", "0O17", "017", "-017", "0b101", "0B101", "0b102", "089", "0x", "0o", "0b", "0xg", "x10", "1_000", "0x_ff", "+0x10", "0x7fffffffffffffff", "0x8000000000000000", "0xffffffffffffffff", "0x10000000000000000", "01777777777777777777777", "02000000000000000000000", "1e3", "0x1p4", " 0x10", "0x10 ", "00x10", "0b", "0_7", "-", "0x-1"}[r.Intn(40)]
			default:
				cs.Text = GenScalarText(r, kind, BaseAuto, 0)
			}
			cell = "int-prefix-base/" + kind.String()
		case 1:
			cs.T = TypeSpec{K: KOnOff, W: []Wrap{WScalar, WPtr, WSlice, WSlicePtr, WFunc1}[r.Intn(5)]}
			cs.Text = []string{"on", "off", "on", "off", "true", "false", "", "ON", "1", "on ", "of"}[r.Intn(11)]
			cell = "unmarshaler-bool-kind"
		default:
			cs.T = []TypeSpec{{K: KInt, W: WMap, MapKey: KRes}, {K: KString, W: WMap, MapKey: KRes}, {K: KRes}, {K: KRes, W: WSlice}, {K: KRes, W: WFunc1}, {K: KRes, W: WFunc1Err}}[r.Intn(6)]
			key := []string{"cpu", "CPU", "Mem", "g!pu", "!", "", "DISK0", "é"}[r.Intn(8)]
			if cs.T.W == WMap {
				val := GenScalarText(r, cs.T.K, 0, 0)
				cs.Text = key + ":" + strings.ReplaceAll(val, "!", "")
			} else {
				cs.Text = key
			}
			cell = "unmarshaler-key/" + cs.T.String()
		}
	case 9: // arguments that start with a double quote (unquote left on): a Go string literal or nothing
		cs.T = TypeSpec{K: KString, W: []Wrap{WScalar, WPtr, WSlice, WFunc1}[r.Intn(4)]}
		cs.Unquote = true
		if r.Chance(1, 5) {
			// a map entry whose value part is quoted: the argument as a whole does not start with a quote
			cs.T = TypeSpec{K: KString, W: WMap, MapKey: KString}
			cs.Text = "k:" + r.Pick([]string{"\"hello world\"", "\"", "\"open", "\"a\\tb\"", "\"\""})
			return cs, "map-entry-with-quoted-value"
		}
		if r.Chance(2, 3) {
			cs.Text = []string{`"abc"`, `""`, `"`, `"a`, `a"`, `"a"b"`, "\"a\nb\"", "\"a\rb\"", "\"raw\ttab\"", `"a\tb"`, `"a\nb"`, `"\q"`, `"\x41"`, `"\xff"`, "\"\xff\"", "\"\xc3\"", `"é"`, `"\u00e9"`, `"\u12"`, `"a\\"`, `"a\"`, `"a\"b"`, `"'"`, `'a'`, "`a`", `"a" `, ` "a"`, `"世界"`, `"\0"`, `"\101"`, `"a\`, "\"\x00\"", `"😀"`, `"\U0001F600"`, `"\ud800"`}[r.Intn(35)]
		} else {
			body := GenString(r, r.Intn(12))
			switch r.Intn(3) {
			case 0:
				cs.Text = strconv.Quote(body)
			case 1:
				cs.Text = "\"" + body + "\""
			default:
				cs.Text = "\"" + body
			}
		}
		cell = "string-literal"
	default: // choices
		kinds := []TK{KString, KInt, KUint8, KFloat64, KDuration}
		kind := kinds[r.Intn(len(kinds))]
		n := r.Range(1, 5)
		seen := map[string]bool{}
		for len(cs.Choice) < n {
			ch := GenScalarText(r, kind, 0, 0)
			if kind == KString {
				ch = fmt.Sprintf("ch%d%s", r.Intn(50), []string{"", "x", "-y"}[r.Intn(3)])
			}
			if !seen[ch] && ch != "" {
				seen[ch] = true
				cs.Choice = append(cs.Choice, ch)
			}
		}
		base := cs.Choice[r.Intn(n)]
		switch r.Intn(8) {
		case 0, 1, 2:
			cs.Text = base
		case 3:
			cs.Text = base[:len(base)-1]
		case 4:
			cs.Text = strings.ToUpper(base)
		case 5:
			cs.Text = base + " "
		case 6:
			cs.Text = "0" + base
		default:
			cs.Text = "nope"
		}
		if strings.HasPrefix(cs.Text, "\"") || cs.Text == "" {
			cs.Text = base
		}
		cs.T = TypeSpec{K: kind, W: []Wrap{WScalar, WPtr, WSlice}[r.Intn(3)]}
		cell = fmt.Sprintf("choice/n%d", n)
	}
	// delivery channel
	switch c.K % 6 {
	case 3:
		cs.Via = "ini"
	case 4:
		cs.Via = "default"
	case 5:
		cs.Via = "env"
	}
	if len(cs.Choice) > 0 && c.K%6 == 2 {
		// the public Option.Set, called by a program that applies its own configuration source before it parses
		cs.Via = "set"
	}
	if cs.T.IsFunc() && cs.Via != "cli" {
		cs.Via = "cli"
	}
	if cs.Unquote || (cs.T.K == KOnOff && cs.Via == "default") {
		cs.Via = "cli" // (unquoting is a command-line feature; default tags on bool-kinded types are refused)
	}
	return cs, cell
}

func c11Run(c *Ctx) {
	if c.Sub("api?").Intn(16) == 3 {
		// numeric / duration options registered through the public AddOption API
		apiMiniConvert(c)
		return
	}
	if inHistTail(c, int64(len(c11IntKinds)*35*57*len(c11Spell))+40000, int64(len(c11IntKinds)*35*57*len(c11Spell))+1500000) {
		// the allowed values are the ones the option lists NOW: the program may edit Choices between two parses
		histCase(c, GenDecl(c.Sub("dh"), histChoiceCfg()), []string{"choices-in-place", "choices-replaced"}, []string{"parse"})
		return
	}
	if nInt := int64(len(c11IntKinds) * 35 * 57 * len(c11Spell)); c.K >= nInt && c.K%31 == 9 {
		c11OptionalList(c)
		return
	}
	cs, cell := c11Gen(c)
	t := cs.T
	d := &Decl{}
	root := &Cmd{ID: d.NewID(), Name: "app"}
	root.G = &Grp{Cmd: root, Field: "G0"}
	d.Root = root
	d.Cmds = append(d.Cmds, root)
	d.Grps = append(d.Grps, root.G)
	o := &Opt{ID: d.NewID(), Field: "Val", Long: "val", Short: 'v', T: t, Base: cs.Base, NoUnquote: !cs.Unquote, Choices: cs.Choice, Grp: root.G, Cmd: root}
	if cs.Via == "default" {
		o.Defaults = []string{cs.Text}
	}
	o.Prog = len(cs.Choice) > 0 && c.K%3 == 0 // all choices declared programmatically in a third of the cases
	if len(cs.Choice) > 1 && c.K%3 == 1 {
		o.ProgChoicesFrom = len(cs.Choice) - 1 // the last choice is appended to the tag-declared ones after scanning
	}
	envKey := ""
	if cs.Via == "env" {
		if c.W.Tier == "race" || strings.ContainsRune(cs.Text, 0) {
			cs.Via = "cli" // (the environment cannot carry NUL bytes)
		} else {
			envKey = fmt.Sprintf("VH_C11_%d", c.K)
			o.Env = envKey
		}
	}
	root.G.Opts = append(root.G.Opts, o)
	d.Opts = append(d.Opts, o)
	b := d.Build()
	c.Case(func() interface{} {
		return map[string]interface{}{"type": t.String(), "base": cs.Base, "text": cs.Text, "via": cs.Via, "choices": cs.Choice, "tag": o.Tag()}
	})
	if b.Err != nil {
		c.Violate("setup-error", "declaration rejected: %v", b.Err)
		return
	}
	var err error
	var pan *PanicInfo
	iniQuoted := false
	handlerCalls := 0
	switch cs.Via {
	case "cli", "default", "env":
		var args []string
		if cs.Via == "cli" {
			args = []string{"--val=" + cs.Text}
		}
		if cs.Via == "env" {
			os.Setenv(envKey, cs.Text)
			defer os.Unsetenv(envKey)
		}
		if c.K%7 == 3 {
			// an installed unknown-option handler must not change how known options reject bad values
			b.P.UnknownOptionHandler = func(option string, arg flags.SplitArgument, args []string) ([]string, error) {
				handlerCalls++
				return args, nil
			}
		}
		pan = safely(func() { _, err = b.P.ParseArgs(args) })
	case "set":
		fo := b.P.FindOptionByLongName("val")
		if fo == nil {
			c.Violate("setup-error", "option --val not found")
			return
		}
		pan = safely(func() {
			txt := cs.Text
			err = fo.Set(&txt)
		})
	case "ini":
		txt := cs.Text
		if t.W == WMap {
			// only transparent map texts can be written bare
			if strings.TrimSpace(txt) != txt || strings.ContainsAny(txt, "\"\n\r") || txt == "" {
				cs.Via = "cli"
				pan = safely(func() { _, err = b.P.ParseArgs([]string{"--val=" + cs.Text}) })
				break
			}
		} else {
			txt = strconv.Quote(txt)
			iniQuoted = true
		}
		ip := flags.NewIniParser(b.P)
		pan = safely(func() { err = ip.Parse(strings.NewReader("Val = " + txt + "\n")) })
	}
	_ = iniQuoted
	c.Count("conversions", 1)
	if handlerCalls > 0 {
		c.Violate("handler-called-for-known-option", "the unknown-option handler was called %d times although --val is a known option", handlerCalls)
		return
	}
	if pan != nil {
		c.Violate("panic:"+panicSite(pan.Stack), "conversion of %q for %s panicked: %s", cs.Text, t, pan.Value)
		return
	}
	// reference classification
	var cls Class
	var want reflect.Value
	hasWant := false
	why := ""
	isChoice := len(cs.Choice) > 0
	inChoices := false
	for _, ch := range cs.Choice {
		if ch == cs.Text {
			inChoices = true
		}
	}
	if t.W == WMap {
		kv, vv, mc := RefMapEntry(t, cs.Base, cs.Text)
		cls = mc
		if kv.HasVal && vv.HasVal {
			want = reflect.MakeMap(t.GoType())
			want.SetMapIndex(kv.Val, vv.Val)
			hasWant = true
		}
		why = kv.Why + "/" + vv.Why
	} else {
		rv := RefScalar(t.K, cs.Base, cs.Text)
		if cs.Unquote && strings.HasPrefix(cs.Text, "\"") {
			// the argument is a Go string literal (strconv.Unquote is the trusted reading) or it is malformed
			if u, uerr := strconv.Unquote(cs.Text); uerr != nil {
				rv = RefVal{Cls: MustReject, Why: "starts with a double quote but is not a string literal"}
			} else {
				rv = RefScalar(t.K, cs.Base, u)
			}
		}
		cls, why = rv.Cls, rv.Why
		if rv.HasVal {
			hasWant = true
			want = reflect.New(t.GoType()).Elem()
			switch t.W {
			case WScalar:
				want.Set(rv.Val)
			case WPtr:
				p := reflect.New(scalarType(t.K))
				p.Elem().Set(rv.Val)
				want.Set(p)
			case WSlice:
				want.Set(reflect.Append(want, rv.Val))
			case WSlicePtr:
				p := reflect.New(scalarType(t.K))
				p.Elem().Set(rv.Val)
				want.Set(reflect.Append(want, p))
			}
		}
	}
	if isChoice && !inChoices {
		cls = MustReject
		why = "not one of the choices"
	}
	accepted := err == nil
	shape := fmt.Sprintf("%s base=%d via=%s cls=%s acc=%v len=%d", t, cs.Base, cs.Via, cls, accepted, minInt(len(cs.Text), 30))
	chan_ := cs.Via
	if !accepted {
		// typed rejection identifying the option
		var typ flags.ErrorType
		var msg string
		switch e := err.(type) {
		case *flags.Error:
			typ, msg = e.Type, e.Message
		case *flags.IniError:
			msg = e.Message
			typ = flags.ErrMarshal
			if strings.Contains(msg, "Invalid value") {
				typ = flags.ErrInvalidChoice
			}
		default:
			c.Violate("reject:untyped:"+chan_, "rejection of %q is %T: %v", cs.Text, err, err)
			return
		}
		if cls == MustAccept {
			c.Violate(fmt.Sprintf("must-accept-rejected:%s:%s", kindGroup(t), chan_), "%s (base %d) rejected %q which denotes a value of the type: %s", t, cs.Base, cs.Text, msg)
			return
		}
		wantTyp := flags.ErrMarshal
		if isChoice && !inChoices {
			wantTyp = flags.ErrInvalidChoice
		}
		if typ != wantTyp {
			c.Violate(fmt.Sprintf("reject:wrong-type:%s", chan_), "rejection of %q for %s has type %s, want %s: %s", cs.Text, t, typ, wantTyp, msg)
			return
		}
		if cs.Via != "ini" && !strings.Contains(msg, "`"+d.OptString(o)+"'") {
			c.Violate("reject:option-not-identified:"+chan_, "rejection message does not identify option %s: %s", d.OptString(o), msg)
			return
		}
		if wantTyp == flags.ErrInvalidChoice {
			for _, ch := range cs.Choice {
				if !strings.Contains(msg, ch) {
					c.Violate(fmt.Sprintf("choice:not-listed:n=%d", len(cs.Choice)), "ErrInvalidChoice message does not list allowed value %q (choices %q): %s", ch, cs.Choice, msg)
					return
				}
			}
		}
		if t.W == WScalar && (isIntKind(t.K) || t.K == KFloat32 || t.K == KFloat64 || t.K == KDuration) {
			// a refused text leaves nothing behind: in particular not the clamped limit of the type
			if got, zero := Canon(o.Val), Canon(newZero(t)); got != zero {
				c.Violate(fmt.Sprintf("rejected-text-stored:%s:%s", kindGroup(t), chan_), "%s (base %d): the text %q was refused (%s), yet the field now holds %s", t, cs.Base, cs.Text, msg, got)
				return
			}
		}
		c.Held(cell+"/rejected", shape)
		return
	}
	if cls == MustReject {
		c.Violate(fmt.Sprintf("must-reject-accepted:%s:%s", kindGroup(t), chan_), "%s (base %d) accepted %q (%s) and stored %s", t, cs.Base, cs.Text, why, Canon(o.Val))
		return
	}
	if t.IsFunc() {
		// the callback received the converted argument
		if len(b.Log.E) != 1 {
			c.Violate("callback-count", "callback ran %d times", len(b.Log.E))
			return
		}
		if hasWant {
			rv := RefScalar(t.K, cs.Base, cs.Text)
			if cs.Unquote && strings.HasPrefix(cs.Text, "\"") {
				u, _ := strconv.Unquote(cs.Text)
				rv = RefScalar(t.K, cs.Base, u)
			}
			if got := b.Log.E[0].Args[0]; got != Canon(rv.Val) {
				c.Violate("inexact:callback:"+kindGroup(t), "callback for %q received %s, denoted value %s", cs.Text, got, Canon(rv.Val))
				return
			}
		}
		c.Held(cell+"/accepted", shape)
		return
	}
	if hasWant {
		if got, w := Canon(o.Val), Canon(want); got != w {
			c.Violate(fmt.Sprintf("inexact:%s:%s", kindGroup(t), chan_), "%s (base %d): text %q stored as %s, denoted value %s", t, cs.Base, cs.Text, got, w)
			return
		}
	}
	c.Held(cell+"/accepted", shape)
}

func kindGroup(t TypeSpec) string {
	switch {
	case t.W == WMap:
		return "map"
	case isIntKind(t.K):
		return "int"
	case t.K == KFloat32 || t.K == KFloat64:
		return "float"
	}
	return t.K.String()
}

func init() {
	nInt := int64(len(c11IntKinds) * 35 * 57 * len(c11Spell))
	register(&Property{
		ID:    "C11",
		Title: "Values are converted exactly or rejected",
		Cases: func(tier string) int64 {
			switch tier {
			case "thorough":
				return nInt + 1500000 + 50000 // + history cases
			case "race":
				return 0
			}
			return nInt + 40000 + 2000 // + history cases
		},
		Run:           c11Run,
		MinNontrivial: 500,
		Rule: "1 case in 16: an int / uint8 / float64 / Duration option registered with AddOption (on the parser or a namespaced group, with or without Choices), text from the same generators, attached or as the next token: judged by the reference conversions. cases 0..79799 enumerate exhaustively 10 integer kinds x bases 2..36 x 57 boundary values {min-1,min,min+1,-1,0,1,max-1,max,max+1, +-2^k and +-2^k+-1 for k in 7,8,15,16,31,32,63,64} x 4 spellings {plain, leading zeros, upper-case digits, plus sign}; the rest draw from float32/64 tables (limits, halfway cases, long mantissas, special forms) and random decimals, Duration unit combinations at the int64 limits, decorated integers, map entries (k:v, k:, k, :v, k:v:w), func(bool) arguments, value- and pointer-receiver Unmarshalers (also bool-kinded and in map-key position), integers with base:\"0\" in every prefixed spelling, arguments that start with a double quote (Go string literal or malformed, unquote on), strings, and choice sets of size 1-5 with near-miss values; wrapped as scalar / pointer / slice / slice of pointers / callback; delivered through the command line (unquote off), an INI entry or a default tag. " +
			"Oracle: independent big.Int/big.Rat reference functions classify each text as must-accept / must-reject / may-either; accepted values must equal the reference value bit-exactly; rejections must be ErrMarshal / ErrInvalidChoice identifying the option (and listing every choice). distinct = (type, base, channel, class, outcome, text length).",
		Assumptions: []string{"liberal-only forms (+5, 0x prefixes, underscores, Inf/NaN, underflow to zero, sub-nanosecond fractions, bare-dot forms, k without colon) are may-either", "IniError carries no Type: its message is mapped to the flag error it wraps"},
		Technique:   "runtime reference-model monitor: arbitrary-precision reference conversions (not strconv) as a three-way oracle; exhaustive integer kind x base x boundary enumeration; metamorphic history monitor ([use, change of the public model, use] on one parser vs. a fresh parser of the changed declaration)",
		LevelText:   "Exploration with an exhaustive boundary enumeration for every integer kind and base (79 800 points) plus ~4x10^4..1.5x10^6 float/duration/map/choice texts, judged by independent arbitrary-precision reference conversions.",
		LevelNote:   "Trusted: the reference conversion functions (self-tested against hand-computed values at setup).",
		DesignRef:   "§4 C11",
	})
}

// c11OptionalList: an optional-argument slice option given bare stores its whole optional-value list - every
// entry converted exactly, and a bad entry anywhere in the list rejected.
func c11OptionalList(c *Ctx) {
	r := c.R
	kind := []TK{KInt, KUint8, KDuration, KFloat64, KInt8}[r.Intn(5)]
	t := TypeSpec{K: kind, W: []Wrap{WSlice, WSlicePtr}[r.Intn(2)]}
	n := r.Range(2, 4)
	bad := -1
	if r.Chance(2, 3) {
		bad = r.Intn(n) // position of the bad entry (also first or middle, not only last)
	}
	var vals []string
	for i := 0; i < n; i++ {
		if i == bad {
			vals = append(vals, r.Pick([]string{"zz", "1x", "", "99999999999999999999999", "--", "0x"}))
		} else {
			vals = append(vals, GenScalarText(r, kind, 0, 0))
		}
	}
	d := &Decl{}
	root := &Cmd{ID: d.NewID(), Name: "app"}
	root.G = &Grp{Cmd: root, Field: "G0"}
	d.Root = root
	d.Cmds = append(d.Cmds, root)
	d.Grps = append(d.Grps, root.G)
	o := &Opt{ID: d.NewID(), Field: "Val", Long: "val", Short: 'v', T: t, Optional: true, OptionalValues: vals, NoUnquote: true, Grp: root.G, Cmd: root}
	root.G.Opts = append(root.G.Opts, o)
	d.Opts = append(d.Opts, o)
	b := d.Build()
	args := []string{r.Pick([]string{"--val", "-v"})}
	c.Case(func() interface{} {
		return map[string]interface{}{"type": t.String(), "optional_values": vals, "argv": args, "tag": o.Tag()}
	})
	if b.Err != nil {
		c.Violate("setup-error", "declaration rejected: %v", b.Err)
		return
	}
	var err error
	if pi := safely(func() { _, err = b.P.ParseArgs(args) }); pi != nil {
		c.Violate("panic:"+panicSite(pi.Stack), "parse panicked: %s", pi.Value)
		return
	}
	c.Count("conversions", int64(len(vals)))
	want := newZero(t)
	cls := MustAccept
	for _, v := range vals {
		rv := RefScalar(kind, 0, v)
		if rv.Cls == MustReject {
			cls = MustReject
			break
		}
		if rv.Cls == MayEither {
			cls = MayEither
		}
		applyRef(want, t, 0, v)
	}
	cell := fmt.Sprintf("optional-value-list/%s", kind)
	switch {
	case cls == MustReject:
		fe, _ := err.(*flags.Error)
		if fe == nil || fe.Type != flags.ErrMarshal {
			c.Violate("must-reject-accepted:optional-value-list", "%s optional values %q: entry %d is not a value of the type, but the bare flag was answered with %v and the field holds %s", t, vals, bad, err, Canon(o.Val))
			return
		}
		c.Held(cell+"/rejected", fmt.Sprintf("n=%d bad=%d", n, bad))
	case cls == MustAccept:
		if err != nil {
			c.Violate("must-accept-rejected:optional-value-list", "%s optional values %q rejected: %v", t, vals, err)
			return
		}
		if got, w := Canon(o.Val), Canon(want); got != w {
			c.Violate("inexact:optional-value-list", "%s optional values %q stored as %s, denoted %s", t, vals, got, w)
			return
		}
		c.Held(cell+"/accepted", fmt.Sprintf("n=%d", n))
	default:
		c.Held(cell+"/liberal-form", fmt.Sprintf("n=%d", n))
	}
}
