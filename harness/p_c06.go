package main

import (
	"fmt"
	"os"
	"strings"

	flags "github.com/jessevdk/go-flags"
)

// C06: required options and argument counts are enforced.

func c06Cfg() *DeclCfg {
	types := []TypeSpec{{K: KString}, {K: KBool}, {K: KBool}, {K: KInt}, {K: KString, W: WSlice}, {K: KBool, W: WSlice}, {K: KFloat64}, {K: KString, W: WMap, MapKey: KString}, {K: KString, W: WPtr}, {K: KBool, W: WPtr}, {W: WFunc0}, {K: KString, W: WFunc1}, {K: KInt, W: WFunc1Err}}
	return &DeclCfg{
		MaxDepth: 3, MaxFan: 2, PCmds: 70, Types: types, OptsMin: 1, OptsMax: 3, SubGroupsMax: 1, PInline: 20, PNameless: 10, NestMax: 2,
		PNamespace: 30, PShortOnly: 20, PLongOnly: 20, PRequired: 45, PDefault: 8, PProgAttr: 40, POptional: 15,
		PPos: 45, PosMax: 4, PRest: 50, PPosReq: 60, PExec: 60, PByTag: 50, PSubOptional: 30, PAliases: 20,
		ParserOpts: []flags.Options{0, flags.PassDoubleDash, flags.HelpFlag | flags.PassDoubleDash, flags.HelpFlag},
		PosTypes:   []TypeSpec{{K: KString}}, PNamedRest: 40, PPosSplit: 25, PReqViaAPI: 25, PReqInverted: 20,
	}
}

func c06Run(c *Ctx) {
	r := c.R
	if c.K%16 == 11 {
		// required options registered through the public AddOption API
		apiMiniRequired(c)
		return
	}
	d := GenDecl(c.Sub("d"), c06Cfg())
	if inHistTail(c, 42000, 1500000) {
		// a required option registered after the parser was first used is enforced as well
		hc := c06Cfg()
		hc.PPosReq = 0 // (positional requirements are not state-free on a re-used parser, see hist.go)
		histCase(c, GenDecl(c.Sub("dh"), hc), []string{"late-required-group", "late-required-in-group", "late-required-in-group", "required-set", "required-set", "none"}, []string{"parse", "complete"})
		return
	}
	var target *Cmd
	if len(d.Cmds) > 1 && r.Chance(3, 4) {
		target = d.Cmds[r.Intn(len(d.Cmds))]
	}
	sc := GenScenario(r, d, &ScenCfg{MaxItems: 8, POcc: 40, PCluster: 10, PPos: 25, PCmd: 20, PTerm: 8, PQuoted: 5, SkipReq: true, Target: target})
	if sc.Exp.Unspec != "" {
		c.Unspec(sc.Exp.Unspec)
		return
	}
	if sc.NeedsCommand() {
		c.Unspec("vector ends where a sub-command is still required")
		return
	}
	// required options of the active chain; supply the subset selected by k (exhaustive when <= 6 of them)
	var req []*Opt
	for _, cm := range sc.Exp.Chain {
		for _, o := range cm.OwnOpts() {
			if o.Required {
				req = append(req, o)
			}
		}
	}
	if len(req) > 6 {
		req = req[:6] // the rest stay unsupplied (and are expected in the message)
	}
	mask := uint64(c.K/7) % (1 << uint(len(req)))
	if c.K%7 == 0 {
		mask = (1 << uint(len(req))) - 1 // all supplied: the positional constraints become visible
	}
	supplied := 0
	viaEnv := 0
	for i, o := range req {
		if mask&(1<<uint(i)) != 0 {
			if !o.T.IsFunc() && !o.T.IsFlag() && o.T.W != WMap && sc.Exp.Seen[o] == 0 && r.Chance(1, 4) {
				// a required option is also satisfied by its environment variable - for a string option even by
				// a variable that is set to the empty text
				o.Env = fmt.Sprintf("VH_C06_%d_%d", c.K, o.ID)
				v := GenValueText(r, o)
				if o.T.K == KString && len(o.Choices) == 0 && (o.T.W == WScalar || o.T.W == WPtr) && r.Bool() {
					v = ""
				}
				if !strings.ContainsRune(v, 0) {
					o.EnvDelim = ""
					o.EnvSet = &v
					key := d.FullEnv(o)
					os.Setenv(key, v)
					c.Defer(func() { os.Unsetenv(key) })
					supplied++
					viaEnv++
					continue
				}
				o.Env = ""
			}
			if sc.SupplyOption(r, o, true) {
				supplied++
			}
		}
	}
	sc.Redenote()
	args := sc.Args()
	c.Case(caseOf(sc, args, map[string]interface{}{"required_in_chain": len(req), "supplied": supplied}))
	if sc.Exp.Unspec != "" {
		c.Unspec(sc.Exp.Unspec)
		return
	}
	b := d.Build()
	if b.Err != nil {
		c.Violate("setup-error", "generated declaration rejected: %v", b.Err)
		return
	}
	o := RunParse(b, args)
	c.Count("parses", 1)
	if o.Panic != nil {
		c.Violate("panic", "ParseArgs panicked: %s", o.Panic.Value)
		return
	}
	missing := sc.MissingRequired()
	var wantNames []string
	kind := "none"
	if len(missing) > 0 {
		kind = "options"
		for _, m := range missing {
			wantNames = append(wantNames, d.OptString(m))
		}
	} else if un := sc.UnmetPositionals(); len(un) > 0 {
		kind = "positionals"
		wantNames = un
	}
	executed := 0
	for _, e := range o.Log {
		if e.Kind == "execute" {
			executed++
		}
	}
	if kind == "none" {
		if o.Err != nil {
			if _, isSentinel := o.Err.(*sentinelErr); !isSentinel {
				c.Violate("all-met-but-rejected:"+errTypeName(o.Err), "every required option and positional constraint is met but the parse failed: %v", o.Err)
				return
			}
		}
		if sig, msg := CompareSuccess(sc, o, o.Err == nil); sig != "" {
			c.Violate("all-met:"+sig, "%s", msg)
			return
		}
		cell := fmt.Sprintf("met/req%d/depth%d", len(req), sc.Final.Depth)
		if viaEnv > 0 {
			cell += "/via-env"
		}
		c.Held(cell, fmt.Sprintf("supplied=%d pos=%v", supplied, sc.Final.Pos != nil))
		return
	}
	if o.FErr == nil || o.FErr.Type != flags.ErrRequired {
		c.Violate("unmet-"+kind+":not-ErrRequired", "unmet %s %q but ParseArgs returned %s (%v)", kind, wantNames, errTypeName(o.Err), o.Err)
		return
	}
	if executed > 0 {
		c.Violate("unmet-"+kind+":executed", "a command was executed although %s %q are unmet", kind, wantNames)
		return
	}
	var got []string
	for _, it := range backquoted(o.FErr.Message) {
		if kind == "positionals" {
			if i := strings.Index(it, " ("); i >= 0 {
				it = it[:i]
			}
		}
		got = append(got, it)
	}
	if !eqStrs(sortedCopy(got), sortedCopy(wantNames)) {
		c.Violate("unmet-"+kind+":wrong-names", "ErrRequired message names %q, the unmet %s are %q (message: %s)", sortedCopy(got), kind, sortedCopy(wantNames), o.FErr.Message)
		return
	}
	c.Count("errrequired_observed", 1)
	c.Held(fmt.Sprintf("unmet-%s/n%d/depth%d", kind, minInt(len(wantNames), 4), sc.Final.Depth), fmt.Sprintf("req=%d supplied=%d mask=%d", len(req), supplied, mask))
}

func init() {
	register(&Property{
		ID:    "C06",
		Title: "Required options and argument counts are enforced",
		Cases: func(tier string) int64 {
			switch tier {
			case "thorough":
				return 1500000 + 300000 // + history cases
			case "race":
				return 0
			}
			return 42000 + 10000 // + history cases
		},
		Run:           c06Run,
		MinNontrivial: 300,
		Rule: "1 case in 16: a parser built through the API only (AddGroup, AddCommand with SubcommandsOptional, 1-3 options registered with AddOption, Required on some): ErrRequired names exactly the missing ones whose command is selected. case k: a command tree of depth <=3 with required options (45%) at every level and in nested groups, positional structs with required:\"yes\" on the struct, required / N / N-M on fields; a valid intent vector that never mentions required options by itself, into which the subset number (k/7 mod 2^n) of the n<=6 required options of the active chain is inserted in random spelling (also inside clusters); every 7th case supplies all so that positional constraints are reached. " +
			"Oracle: success iff nothing is unmet; otherwise ErrRequired whose back-quoted names equal exactly the missing options (or, when none is missing, the unmet positionals), nothing executed. Non-trivial = every case judged; distinct = (kind, #names, depth, #required, subset).",
		Assumptions: []string{"message wording is not asserted, only the set of back-quoted names and the error type", "a required option with default tags counts as supplied"},
		Technique:   "runtime reference-model monitor: set of unmet items computed from the intent vs. names extracted from ErrRequired; exhaustive subsets of the chain's required options; metamorphic history monitor ([use, change of the public model, use] on one parser vs. a fresh parser of the changed declaration)",
		LevelText:   "Exploration with exhaustive subset enumeration per chain (<=64 subsets) across random trees; appropriate for an input-quantified enforcement rule.",
		LevelNote:   "Trusted: the model of which commands are active and which positionals are live at the end of the vector.",
		DesignRef:   "§4 C06",
	})
}
