package main

import (
	"fmt"
	"math/big"
	"strconv"
	"strings"

	flags "github.com/jessevdk/go-flags"
)

// ---------------------------------------------------------------------------
// Random declaration generator
// ---------------------------------------------------------------------------

type DeclCfg struct {
	MaxDepth     int // command depth below the root
	MaxFan       int // sub-commands per command
	PCmds        int // % that a command (below MaxDepth) has sub-commands
	Types        []TypeSpec
	OptsMin      int
	OptsMax      int
	SubGroupsMax int // nested groups per struct
	NestMax      int // group nesting depth
	PNamespace   int
	PEnvNS       int
	PShortOnly   int
	PLongOnly    int
	NonASCII     bool // allow non-ASCII short runes (and long names when NonASCIILong)
	NonASCIILong bool
	PClash       int // % that an option reuses a name of an ancestor command's option (shadowing)
	PRequired    int
	PDefault     int
	PEnv         int
	PEnvDelim    int
	PChoices     int
	PLongChoices int // % of the choice lists that have 8-20 entries
	POptional    int
	PHidden      int
	PHiddenGrp   int
	PHiddenCmd   int
	PBase        int
	PDupIniName  int // % of options in nested groups that reuse the ini-name of an option of an enclosing group
	PNameless    int // % of options that have neither a short nor a long name (only an ini-name)
	PInline      int // % of nested struct fields that carry no group tag (their options belong to the enclosing group)
	PCmdTwin     int // a sibling command is named like the previous one up to case / one trailing character
	PNamedRest   int // a []string rest positional is declared with the named type StrList
	PReqInverted int // % of the N-M ranges of a rest positional that have M < N
	PReqViaAPI   int // the required counts of a positional are assigned through Command.Args() instead of a tag
	PPosLongTag  int // a positional field also carries a long: tag
	PPosSplit    int // the positionals are declared in two positional-args structs
	PNoUnquote   int
	PInitial     int
	PPlain       int
	PPos         int // % that a command declares positional arguments
	PosMax       int
	PRest        int // % that the positional struct ends in a slice
	PPosReq      int
	PosTypes     []TypeSpec
	PExec        int // % of non-root commands that are Commander nodes (AddCommand + AddGroup)
	PByTag       int // % of non-exec commands declared by tag
	PSubOptional int
	PAliases     int
	PPtrGroup    int
	PDesc        int
	PValueName   int
	PDefaultMask int
	PIniName     int
	PNoIni       int
	ParserOpts   []flags.Options // choose one
	NsDelims     []string
	EnvDelims    []string
	NoHelpNames  bool // avoid -h / --help even without HelpFlag
	NonASCIICmd  bool // some command names and aliases contain non-ASCII characters
	PDefault2    int  // % of scalar options with default tags that get two differing ones (the last wins)
	PNoFlag      int  // % of structs that get a `no-flag` struct field whose tagged inner fields must NOT become options
	PProgAttr    int  // % of options whose required/choice/hidden/default-mask marks are set on the flags.Option after scanning
	PDupField    int  // % of options in nested groups that reuse the Go field name of an option of an enclosing group
}

var shortPoolASCII = []rune("abcdefgijklmnopqrstuvwxyzABCDEFGHIJKLMNOPQRSTUVWXYZ0123456789")
var shortPoolWide = []rune("éßλЖ世😀ñø\ufffdд4ŁAţc") // (д/4, Ł/A, ţ/c agree in their low byte)

type namer struct {
	r       *Rand
	d       *Decl
	cfg     *DeclCfg
	shorts  map[*Cmd]map[rune]bool
	longs   map[*Cmd]map[string]bool
	cmdName map[*Cmd]map[string]bool
}

func (n *namer) freeShort(c *Cmd) rune {
	used := n.shorts[c]
	if used == nil {
		used = map[rune]bool{}
		n.shorts[c] = used
	}
	for try := 0; try < 40; try++ {
		var ru rune
		if n.cfg.NonASCII && n.r.Chance(1, 4) {
			ru = shortPoolWide[n.r.Intn(len(shortPoolWide))]
		} else {
			ru = shortPoolASCII[n.r.Intn(len(shortPoolASCII))]
		}
		if !used[ru] {
			used[ru] = true
			return ru
		}
	}
	return 0
}

func (n *namer) markLong(c *Cmd, full string) bool {
	used := n.longs[c]
	if used == nil {
		used = map[string]bool{}
		n.longs[c] = used
	}
	if used[full] {
		return false
	}
	used[full] = true
	return true
}

var longSuffix = []string{"", "", "x", "-y", "_z", "n2", "Q", "-a-b"}

func (n *namer) longName(id int) string {
	s := fmt.Sprintf("o%03d", id) + n.r.Pick(longSuffix)
	if n.cfg.NonASCIILong && n.r.Chance(1, 4) {
		s = "ö" + s + "é"
	}
	return s
}

// GenDecl builds a random, valid declaration.
func GenDecl(r *Rand, cfg *DeclCfg) *Decl {
	d := &Decl{}
	if len(cfg.ParserOpts) > 0 {
		d.Options = cfg.ParserOpts[r.Intn(len(cfg.ParserOpts))]
	}
	if len(cfg.NsDelims) > 0 {
		d.NsDelim = cfg.NsDelims[r.Intn(len(cfg.NsDelims))]
	}
	if len(cfg.EnvDelims) > 0 {
		d.EnvDelim = cfg.EnvDelims[r.Intn(len(cfg.EnvDelims))]
	}
	n := &namer{r: r, d: d, cfg: cfg, shorts: map[*Cmd]map[rune]bool{}, longs: map[*Cmd]map[string]bool{}, cmdName: map[*Cmd]map[string]bool{}}
	root := &Cmd{ID: d.NewID(), Name: "app"}
	d.Root = root
	d.Cmds = append(d.Cmds, root)
	n.genCmdBody(root)
	return d
}

func (n *namer) genCmdBody(c *Cmd) {
	r, cfg, d := n.r, n.cfg, n.d
	g := &Grp{Cmd: c, Field: fmt.Sprintf("G%d", d.NewID())}
	c.G = g
	d.Grps = append(d.Grps, g)
	if c.Exec {
		g.ByAddGroup = true
		g.Desc = fmt.Sprintf("Grp %03d", d.NewID())
		if r.Chance(cfg.PNamespace, 100) {
			g.Namespace = fmt.Sprintf("n%d", d.NewID())
		}
		if r.Chance(cfg.PEnvNS, 100) {
			g.EnvNS = fmt.Sprintf("EN%d", d.NewID())
		}
	}
	if c.Parent == nil {
		// the struct handed to NewParser carries no tag of its own: a namespace or env-namespace on the
		// "Application Options" group is assigned through the exported fields of that group. (The same on a
		// command's group would also rename the options of its sub-commands and its built-in help option; that
		// shape is not modelled.)
		if r.Chance(cfg.PNamespace, 300) {
			g.Namespace = fmt.Sprintf("n%d", d.NewID())
		}
		if r.Chance(cfg.PEnvNS, 200) {
			g.EnvNS = fmt.Sprintf("EN%d", d.NewID())
		}
	}
	n.genGroupBody(g, c, 0)
	// positional arguments
	if r.Chance(cfg.PPos, 100) && cfg.PosMax > 0 {
		pd := &PosDecl{Field: fmt.Sprintf("Pos%d", d.NewID()), Required: r.Chance(cfg.PPosReq, 100)}
		k := r.Range(1, cfg.PosMax)
		rest := r.Chance(cfg.PRest, 100)
		for i := 0; i < k; i++ {
			id := d.NewID()
			a := &PosArg{Field: fmt.Sprintf("A%d", id)}
			if r.Bool() {
				a.Name = fmt.Sprintf("arg%03d", id) + r.Pick([]string{"", "", "", "%", "%s", "%d%%"})
			}
			t := TypeSpec{K: KString}
			if len(cfg.PosTypes) > 0 {
				t = cfg.PosTypes[r.Intn(len(cfg.PosTypes))]
			}
			a.T = TypeSpec{K: t.K}
			if t.W == WMap {
				a.T = t // a map-typed positional binds one key:value token
			}
			if isIntKind(t.K) && t.W != WMap && r.Chance(cfg.PBase, 100) {
				a.Base = []int{2, 8, 16, 36, BaseAuto}[r.Intn(5)]
			}
			if i == k-1 && rest && a.T.W != WMap {
				a.T.W = WSlice
				a.NamedSlice = a.T.K == KString && r.Chance(cfg.PNamedRest, 100)
				a.UnmSlice = a.NamedSlice && r.Chance(1, 3)
				if a.NamedSlice && !a.UnmSlice && r.Chance(1, 3) {
					a.Embedded = true
					a.Field = "StrList"
				}
				if r.Chance(cfg.PPosReq, 100) {
					lo := r.Range(0, 3)
					switch r.Intn(5) {
					case 0, 1:
						a.Req = strconv.Itoa(lo)
					case 2:
						a.Req = fmt.Sprintf("%d-", lo) // no upper bound
					default:
						a.Req = fmt.Sprintf("%d-%d", lo, lo+r.Range(0, 2))
						if cfg.PReqInverted > 0 && lo > 0 && r.Chance(cfg.PReqInverted, 100) {
							// a range nobody can meet (maximum below minimum): every count is refused
							a.Req = fmt.Sprintf("%d-%d", lo, r.Intn(lo))
						}
					}
				}
			} else if !pd.Required && r.Chance(cfg.PPosReq/2, 100) {
				a.Req = "yes"
			}
			a.ReqViaAPI = a.Req != "" && cfg.PReqViaAPI > 0 && r.Chance(cfg.PReqViaAPI, 100)
			if r.Chance(cfg.PDesc, 100) {
				a.Desc = fmt.Sprintf("pd%03d positional text", id) + r.Pick([]string{"", "", "", " 100%", " %d"})
			}
			if a.T.K == KString && a.T.W == WScalar && a.Base == 0 && r.Chance(cfg.PNamedRest, 300) {
				a.PtrSlice = true
			}
			if r.Chance(cfg.PPosLongTag, 100) {
				a.ExtraLong = fmt.Sprintf("pl%03d", id)
			}
			pd.Args = append(pd.Args, a)
		}
		if k >= 2 && r.Chance(cfg.PPosSplit, 100) {
			pd.Split = r.Range(1, k-1)
		}
		c.Pos = pd
	}
	// sub-commands
	if c.Depth < cfg.MaxDepth && r.Chance(cfg.PCmds, 100) {
		k := r.Range(1, cfg.MaxFan)
		for i := 0; i < k; i++ {
			id := d.NewID()
			sc := &Cmd{ID: id, Parent: c, Depth: c.Depth + 1, Name: fmt.Sprintf("c%03d", id) + r.Pick([]string{"", "x", "-run", "add"})}
			if cfg.NonASCIICmd && r.Chance(1, 3) {
				sc.Name += r.Pick([]string{"é", "öß", "λ", "größe"})
			}
			names := n.cmdName[c]
			if names == nil {
				names = map[string]bool{}
				n.cmdName[c] = names
			}
			if i > 0 && r.Chance(cfg.PCmdTwin, 100) {
				// a sibling whose name differs from the previous one only in case, or by one trailing character
				prev := c.Subs[len(c.Subs)-1].Name
				cand := ""
				switch r.Intn(4) {
				case 0:
					cand = flipCase(prev)
				case 3:
					// a dotted name that starts with the sibling's name: on the command line just another word, in an
					// INI section path it must not be mistaken for a sub-command of the sibling
					cand = prev + "." + r.Pick([]string{"add", "x", "migrate"})
				case 1:
					cand = prev + r.Pick([]string{"i", "x", "1"})
				default:
					if len(prev) > 2 && prev[len(prev)-1] < 0x80 {
						cand = prev[:len(prev)-1]
					}
				}
				if cand != "" && !names[cand] {
					sc.Name = cand
				}
			}
			names[sc.Name] = true
			if r.Chance(cfg.PAliases, 100) {
				for j := r.Range(1, 3); j > 0; j-- {
					al := fmt.Sprintf("a%03d", d.NewID()) + r.Pick([]string{"", "z"})
					sc.Aliases = append(sc.Aliases, al)
					names[al] = true
				}
			}
			sc.SubOptional = r.Chance(cfg.PSubOptional, 100)
			if sc.SubOptional && r.Chance(1, 4) {
				sc.SubOptText = r.Pick([]string{"yes", "1", "no", "false", "0", "x"})
			}
			sc.Hidden = r.Chance(cfg.PHiddenCmd, 100)
			if r.Chance(cfg.PDesc, 100) {
				sc.Desc = fmt.Sprintf("cd%03d command text", id) + r.Pick([]string{"", "", "", " 100%", " %v", " (an alias)", " removes aliases", " help topic", " default command"})
			}
			if r.Chance(cfg.PExec, 100) {
				sc.Exec = true
			} else if r.Chance(cfg.PByTag, 100) {
				sc.ByTag = true
				sc.Field = fmt.Sprintf("C%d", id)
			}
			// a tag-declared command must live in a struct that is scanned with the command handler:
			// the parent's own struct (for Exec parents: the AddGroup'ed struct, also fine).
			c.Subs = append(c.Subs, sc)
			d.Cmds = append(d.Cmds, sc)
			n.genCmdBody(sc)
		}
	}
	if c.Parent == nil {
		c.SubOptional = len(c.Subs) > 0 && r.Chance(cfg.PSubOptional, 100)
	}
	// a trailing slice positional in front of required sub-commands makes them unreachable; keep that rare
	if c.Pos != nil && len(c.Subs) > 0 && !c.SubOptional && r.Chance(9, 10) {
		if a := c.Pos.Args[len(c.Pos.Args)-1]; a.IsRest() {
			a.T.W = WScalar
			a.NamedSlice = false
			if a.Embedded {
				a.Embedded = false
				a.Field = fmt.Sprintf("A%d", d.NewID())
			}
			a.PtrSlice = false
			a.Req = ""
		}
	}
}

func (n *namer) genGroupBody(g *Grp, c *Cmd, nest int) {
	r, cfg, d := n.r, n.cfg, n.d
	if r.Chance(cfg.PPlain, 100) {
		for i := r.Range(1, 2); i > 0; i-- {
			g.Plain = append(g.Plain, &PlainField{Field: fmt.Sprintf("Plain%d", d.NewID()), Kind: r.Intn(len(plainTypes))})
		}
	}
	if r.Chance(cfg.PNoFlag, 100) {
		id := d.NewID()
		g.NoFlag = append(g.NoFlag, &NoFlagField{Field: fmt.Sprintf("NF%d", id), Long: fmt.Sprintf("nf%03d", id), Short: 0})
	}
	k := r.Range(cfg.OptsMin, cfg.OptsMax)
	if g.NoOwn {
		k = 0
	}
	for i := 0; i < k; i++ {
		if o := n.genOpt(g, c); o != nil {
			g.Opts = append(g.Opts, o)
			d.Opts = append(d.Opts, o)
		}
	}
	if nest < cfg.NestMax {
		for i := r.Range(0, cfg.SubGroupsMax); i > 0; i-- {
			id := d.NewID()
			sg := &Grp{Cmd: c, Parent: g, Field: fmt.Sprintf("G%d", id), Desc: fmt.Sprintf("Grp %03d", id)}
			if r.Chance(cfg.PInline, 100) {
				// an untagged struct field: its options are part of the enclosing group
				sg.Inline, sg.Desc = true, ""
				sg.Ptr = r.Chance(cfg.PPtrGroup, 100)
				if sg.Ptr && r.Bool() {
					// the program leaves the pointer nil: the library allocates the struct while it reads the
					// declaration (and must keep it if anything was declared inside - also if that is only a nested group)
					sg.NilPtr = true
					sg.NoOwn = nest+1 < cfg.NestMax && r.Bool()
				}
				d.Grps = append(d.Grps, sg)
				g.Subs = append(g.Subs, sg)
				n.genGroupBody(sg, c, nest+1)
				if sg.Ptr && len(allOptsOf(sg)) == 0 {
					sg.Ptr, sg.NilPtr = false, false
				}
				continue
			}
			if r.Chance(cfg.PNamespace, 100) {
				sg.Namespace = fmt.Sprintf("n%d", id) + r.Pick([]string{"", "s", "-t"})
			}
			if r.Chance(cfg.PEnvNS, 100) {
				sg.EnvNS = fmt.Sprintf("EN%d", id)
			}
			sg.Hidden = r.Chance(cfg.PHiddenGrp, 100)
			sg.Ptr = r.Chance(cfg.PPtrGroup, 100)
			if r.Chance(cfg.PDesc, 100) {
				sg.LongDesc = fmt.Sprintf("gd%03d group text", id)
			}
			d.Grps = append(d.Grps, sg)
			g.Subs = append(g.Subs, sg)
			n.genGroupBody(sg, c, nest+1)
			if sg.Ptr && len(allOptsOf(sg)) == 0 {
				sg.Ptr = false
			}
		}
	}
}

func (n *namer) genOpt(g *Grp, c *Cmd) *Opt {
	r, cfg, d := n.r, n.cfg, n.d
	id := d.NewID()
	o := &Opt{ID: id, Field: fmt.Sprintf("F%d", id), Grp: g, Cmd: c}
	if g.Owner().Parent != nil && r.Chance(cfg.PDupField, 100) {
		// same field name in an enclosing group's struct (legal Go; the INI key of both is that name)
		var anc []*Opt
		for pg := g.Owner().Parent; pg != nil; pg = pg.Parent {
			// (not from the group that will hold this option itself: two options of one group with the same field
			// name cannot be told apart in an INI section)
			if pg.Owner() != g.Owner() {
				anc = append(anc, pg.Opts...)
			}
		}
		if len(anc) > 0 {
			cand := anc[r.Intn(len(anc))].Field
			free := true
			var own func(x *Grp)
			own = func(x *Grp) {
				for _, xo := range x.Opts {
					if xo.Field == cand {
						free = false
					}
				}
				for _, sx := range x.Subs {
					if sx.Inline {
						own(sx)
					}
				}
			}
			own(g.Owner())
			if free {
				o.Field = cand
			}
		}
	}
	o.T = cfg.Types[r.Intn(len(cfg.Types))]
	help := d.Options&flags.HelpFlag != 0 || cfg.NoHelpNames
	wantShort, wantLong := true, true
	x := r.Intn(100)
	if x < cfg.PShortOnly {
		wantLong = false
	} else if x < cfg.PShortOnly+cfg.PLongOnly {
		wantShort = false
	}
	// shadowing: reuse a name of an ancestor command's option
	if c.Parent != nil && r.Chance(cfg.PClash, 100) {
		var anc []*Opt
		for p := c.Parent; p != nil; p = p.Parent {
			anc = append(anc, p.OwnOpts()...)
		}
		if len(anc) > 0 {
			a := anc[r.Intn(len(anc))]
			if a.Short != 0 && wantShort {
				used := n.shorts[c]
				if used == nil {
					used = map[rune]bool{}
					n.shorts[c] = used
				}
				if !used[a.Short] {
					used[a.Short] = true
					o.Short = a.Short
				}
			}
			if a.Long != "" && wantLong && r.Bool() {
				// same *full* long name: only possible if both have the same namespace chain text
				full := strings.Join(append(o.NsChain(), a.Long), d.nsDelim())
				if full == d.FullLong(a) && n.markLong(c, full) {
					o.Long = a.Long
				}
			}
		}
	}
	if wantShort && o.Short == 0 {
		o.Short = n.freeShort(c)
		if help && o.Short == 'h' {
			o.Short = 0
		}
	}
	if (wantLong || o.Short == 0) && o.Long == "" {
		for try := 0; try < 5 && o.Long == ""; try++ {
			l := n.longName(id)
			full := strings.Join(append(o.NsChain(), l), d.nsDelim())
			// the duplicate check inside go-flags runs with the default delimiter "."; stay unique under both
			fullDot := strings.Join(append(o.NsChain(), l), ".")
			if (help && full == "help") || !n.markLong(c, full) {
				continue
			}
			if fullDot != full {
				n.markLong(c, fullDot)
			}
			o.Long = l
		}
	}
	if o.Short == 0 && o.Long == "" {
		return nil
	}
	t := o.T
	if isIntKind(t.K) && r.Chance(cfg.PBase, 100) {
		o.Base = []int{2, 8, 16, 36, 3, 7, 10, 12, 32, BaseAuto, BaseAuto}[r.Intn(11)]
	}
	if t.W == WMap && isIntKind(t.MapKey) && o.Base == 0 && isIntKind(t.K) && r.Chance(cfg.PBase, 100) {
		o.Base = 16
	}
	if r.Chance(cfg.PDesc, 100) {
		o.Desc = fmt.Sprintf("d%03d option text", id) + r.Pick([]string{"", "", "", " 100%", " %d items", " 5%s", " 50%%", ", defaults to none", " (Defaults to the first)", " default: see below", " alias of the other one", " see --help", " [$HOME]", " one of [a|b]"})
	}
	if r.Chance(cfg.PValueName, 100) && !t.IsFlag() {
		o.ValueName = fmt.Sprintf("V%03d", id)
	}
	o.Hidden = r.Chance(cfg.PHidden, 100)
	if !t.IsFlag() {
		if r.Chance(cfg.PChoices, 100) && !t.IsFunc() && t.W != WMap {
			nc := r.Range(1, 4)
			if cfg.PLongChoices > 0 && r.Chance(cfg.PLongChoices, 100) {
				nc = r.Range(8, 20) // a long list of allowed values
			}
			seen := map[string]bool{}
			for i := 0; i < nc; i++ {
				c := GenScalarText(r, t.K, o.Base, i)
				if !seen[c] {
					seen[c] = true
					o.Choices = append(o.Choices, c)
				}
			}
		}
		if r.Chance(cfg.POptional, 100) && !t.IsFunc() && !t.IsMulti() {
			o.Optional = true
			nv := 1
			if r.Chance(1, 4) {
				nv = 0 // an optional argument without any optional-value: given bare, the option is reset to its zero value
			}
			if t.IsMulti() {
				nv = r.Range(1, 2)
			}
			for i := 0; i < nv; i++ {
				o.OptionalValues = append(o.OptionalValues, GenValueText(r, o))
			}
		}
		if r.Chance(cfg.PDefault, 100) && !t.IsFunc() && t.K != KOnOff {
			// (a default tag on a bool-kinded type is refused at declaration time, also when the type unmarshals itself)
			nv := 1
			if t.IsMulti() {
				nv = r.Range(1, 3)
			}
			if !t.IsMulti() && r.Chance(cfg.PDefault2, 100) {
				nv = 2
			}
			for i := 0; i < nv; i++ {
				o.Defaults = append(o.Defaults, GenValueText(r, o))
			}
			if r.Chance(cfg.PDefaultMask, 100) {
				o.DefaultMask = r.Pick([]string{"-", fmt.Sprintf("mask%03d", id)})
			}
		}
		if r.Chance(cfg.PEnv, 100) && !t.IsFunc() {
			o.Env = fmt.Sprintf("VH_E%d", id)
			if t.IsMulti() && r.Chance(cfg.PEnvDelim, 100) {
				o.EnvDelim = r.Pick([]string{",", ";", "::"})
			}
		}
		if r.Chance(cfg.PNoUnquote, 100) {
			o.NoUnquote = true
		}
		if r.Chance(cfg.PInitial, 100) && !t.IsFunc() {
			nv := 1
			if t.IsMulti() {
				nv = r.Range(1, 3)
			}
			for i := 0; i < nv; i++ {
				o.Initial = append(o.Initial, GenValueText(r, o))
			}
		}
	}
	o.Required = r.Chance(cfg.PRequired, 100)
	if o.Optional && len(o.OptionalValues) == 0 {
		o.Required = false // (given bare it would not count as given)
	}
	if r.Chance(1, 4) {
		o.TruthText = r.Pick([]string{"yes", "1", "False", "NO", "TRUE", "x", "No", "00"})
	}
	o.Prog = (o.Required || len(o.Choices) > 0 || o.Hidden || o.DefaultMask != "") && r.Chance(cfg.PProgAttr, 100)
	if r.Chance(cfg.PIniName, 100) {
		o.IniName = fmt.Sprintf("ini%03d", id)
	}
	if g.Owner().Parent != nil && r.Chance(cfg.PDupIniName, 100) {
		// the same ini-name (possibly in another letter case) as an option of an enclosing group: each is addressed
		// in its own section; inside the outer section the outer option is the first match
		var anc []*Opt
		for pg := g.Owner().Parent; pg != nil; pg = pg.Parent {
			if pg.Owner() != g.Owner() {
				for _, x := range pg.Opts {
					if x.IniName != "" {
						anc = append(anc, x)
					}
				}
			}
		}
		if len(anc) > 0 {
			cand := anc[r.Intn(len(anc))].IniName
			// (not twice inside one group: a section could not tell the two apart)
			free := true
			var own func(x *Grp)
			own = func(x *Grp) {
				for _, xo := range x.Opts {
					if strings.EqualFold(xo.IniName, cand) {
						free = false
					}
				}
				for _, sx := range x.Subs {
					if sx.Inline {
						own(sx)
					}
				}
			}
			own(g.Owner())
			if free {
				o.IniName = cand
				if r.Bool() {
					o.IniName = strings.ToUpper(o.IniName)
				}
			}
		}
	}
	o.NoIni = r.Chance(cfg.PNoIni, 100)
	if r.Chance(cfg.PNameless, 100) && !o.Prog && o.ProgChoicesFrom == 0 {
		// an option without any flag name: it exists for INI files (and for the required check) only
		o.Long, o.Short, o.NoIni = "", 0, false
		if o.IniName == "" {
			o.IniName = fmt.Sprintf("ini%03d", id)
		}
	}
	return o
}

// ---------------------------------------------------------------------------
// Value texts (must-accept spellings) per type
// ---------------------------------------------------------------------------

var stringAlphabet = []string{"a", "b", "Z", "0", "9", " ", "=", ":", "-", "_", ".", ",", "/", "\\", "'", "é", "λ", "世", "😀", "x", "y", "q", "#", ";", "[", "]", "%", "$", "~"}

func GenString(r *Rand, variant int) string {
	switch variant % 12 {
	case 0:
		return fmt.Sprintf("v%d", r.Intn(1000))
	case 1:
		return ""
	case 2:
		n := r.Range(1, 8)
		var sb strings.Builder
		for i := 0; i < n; i++ {
			sb.WriteString(stringAlphabet[r.Intn(len(stringAlphabet))])
		}
		return sb.String()
	case 3:
		return "=" + fmt.Sprintf("eq%d", r.Intn(100))
	case 4:
		return fmt.Sprintf("a=b%d", r.Intn(100))
	case 5:
		return fmt.Sprintf("with space %d", r.Intn(100))
	case 6:
		return fmt.Sprintf("k%d:v:w", r.Intn(100))
	case 7:
		return "é" + fmt.Sprintf("%dλ世", r.Intn(100))
	case 8:
		return fmt.Sprintf("x%d\"q\\", r.Intn(100))
	case 9:
		return fmt.Sprintf("tab\there%d", r.Intn(10))
	case 10:
		return fmt.Sprintf("%d", r.Intn(100000))
	default:
		return fmt.Sprintf("w%d", r.Intn(1000))
	}
}

func formatBig(v *big.Int, base int, r *Rand) string {
	s := v.Text(base)
	if r != nil && base > 10 && r.Chance(1, 3) {
		s = strings.ToUpper(s)
	}
	if r != nil && r.Chance(1, 8) {
		neg := strings.HasPrefix(s, "-")
		s = strings.TrimPrefix(s, "-")
		s = strings.Repeat("0", r.Range(1, 3)) + s
		if neg {
			s = "-" + s
		}
	}
	return s
}

// GenScalarText yields a canonical, in-range text for kind k. variant only diversifies.
func GenScalarText(r *Rand, k TK, base int, variant int) string {
	if base == 0 {
		base = 10
	}
	if base == BaseAuto && isIntKind(k) {
		return genAutoBaseText(r, k)
	}
	switch {
	case k == KString || k == KPicky:
		return GenString(r, r.Intn(12))
	case k == KOnOff:
		return r.Pick([]string{"on", "off"})
	case k == KRes:
		return r.Pick([]string{"cpu", "CPU", "Mem", "disk0", "NET"}) + r.Pick([]string{"", "", "1", "X"})
	case k == KBag:
		return fmt.Sprintf("bag%d", r.Intn(1000))
	case k == KMode:
		return vocabulary[r.Intn(len(vocabulary))]
	case k == KVocab:
		if r.Bool() {
			return vocabulary[r.Intn(len(vocabulary))]
		}
		return fmt.Sprintf("voc%d", r.Intn(100))
	case k == KBool:
		if r.Bool() {
			return "true"
		}
		return "false"
	case isIntKind(k):
		lo, hi := intRange(k)
		var v *big.Int
		switch r.Intn(6) {
		case 0:
			v = new(big.Int).Set(lo)
		case 1:
			v = new(big.Int).Set(hi)
		case 2:
			v = big.NewInt(int64(r.Intn(10)))
		default:
			span := new(big.Int).Sub(hi, lo)
			x := new(big.Int).SetUint64(r.Uint64())
			x.Mul(x, new(big.Int).SetUint64(r.Uint64()|1))
			x.Mod(x, span.Add(span, big.NewInt(1)))
			v = x.Add(x, lo)
			if r.Bool() { // small magnitudes too
				v = big.NewInt(int64(r.Intn(2000)) - 1000)
				if v.Cmp(lo) < 0 || v.Cmp(hi) > 0 {
					v = big.NewInt(int64(r.Intn(100)))
				}
			}
		}
		return formatBig(v, base, r)
	case k == KFloat32 || k == KFloat64:
		if r.Chance(1, 10) {
			// values whose float32 and float64 roundings differ in interesting ways
			return []string{"16777217", "1.0000000596046447753906250000001", "0.1", "33554435", "3.4028234663852886e38", "1.00000017881393432617187501", "-16777219"}[r.Intn(7)]
		}
		switch r.Intn(6) {
		case 0:
			return strconv.Itoa(r.Intn(2000) - 1000)
		case 1:
			return fmt.Sprintf("%d.%d", r.Intn(1000)-500, r.Intn(1000))
		case 2:
			return fmt.Sprintf("%de%d", r.Intn(100)-50, r.Intn(20)-10)
		case 3:
			return fmt.Sprintf("-%d.%03d", r.Intn(10), r.Intn(1000))
		case 4:
			return fmt.Sprintf("0.%d", r.Intn(100000))
		default:
			return fmt.Sprintf("%d.5E%d", r.Intn(10), r.Intn(30))
		}
	case k == KDuration:
		switch r.Intn(6) {
		case 0:
			return "0"
		case 1:
			return fmt.Sprintf("%dh%dm", r.Intn(100), r.Intn(60))
		case 2:
			return fmt.Sprintf("-%ds", r.Intn(1000))
		case 3:
			return fmt.Sprintf("%dms", r.Intn(100000))
		case 4:
			return fmt.Sprintf("%d.%dms", r.Intn(100), r.Intn(1000))
		default:
			return fmt.Sprintf("%dns", r.Intn(1000000))
		}
	case k == KCelsius:
		return fmt.Sprintf("%dC", r.Intn(2000)-1000)
	case k == KLevel:
		return strconv.Itoa(r.Intn(4000) - 2000)
	case k == KPoint:
		return fmt.Sprintf("%d,%d", r.Intn(200)-100, r.Intn(200)-100)
	}
	panic("GenScalarText")
}

// genAutoBaseText renders an in-range value in one of the spellings base 0 understands.
func genAutoBaseText(r *Rand, k TK) string {
	lo, hi := intRange(k)
	var v *big.Int
	switch r.Intn(4) {
	case 0:
		v = new(big.Int).Set(hi)
	case 1:
		v = new(big.Int).Set(lo)
	default:
		v = big.NewInt(int64(r.Intn(4000)) - 2000)
		if v.Cmp(lo) < 0 || v.Cmp(hi) > 0 {
			v = big.NewInt(int64(r.Intn(100)))
		}
	}
	neg := v.Sign() < 0
	a := new(big.Int).Abs(v)
	var s string
	switch r.Intn(6) {
	case 0:
		s = r.Pick([]string{"0x", "0X"}) + a.Text(16)
	case 1:
		s = r.Pick([]string{"0b", "0B"}) + a.Text(2)
	case 2:
		s = r.Pick([]string{"0o", "0O"}) + a.Text(8)
	case 3:
		s = "0" + a.Text(8) // the classic leading-zero octal
	default:
		s = a.Text(10)
	}
	if neg {
		s = "-" + s
	}
	return s
}

// GenValueText yields a must-accept argument text for option o (a choice if choices are declared).
func GenValueText(r *Rand, o *Opt) string {
	if len(o.Choices) > 0 {
		return o.Choices[r.Intn(len(o.Choices))]
	}
	t := o.T
	if t.W == WMap {
		var key string
		if t.MapKey == KString {
			key = fmt.Sprintf("k%d", r.Intn(4))
			if r.Chance(1, 6) {
				key = GenString(r, 7)
			}
			key = strings.ReplaceAll(key, ":", "")
		} else {
			key = GenScalarText(r, t.MapKey, o.Base, 0)
		}
		if t.K == KString && r.Chance(1, 8) {
			// a value part that itself starts with a double quote (only a whole argument is ever unquoted)
			return key + ":" + r.Pick([]string{"\"x y\"", "\"", "\"open", "\"a\\tb\"", "\"\""})
		}
		return key + ":" + GenScalarText(r, t.K, o.Base, 0)
	}
	return GenScalarText(r, t.K, o.Base, 0)
}

// A few handy type lists.
var (
	scalarKinds  = []TK{KString, KInt, KInt8, KInt16, KInt32, KInt64, KUint, KUint8, KUint16, KUint32, KUint64, KFloat32, KFloat64, KDuration, KCelsius, KPoint}
	typesAllArgs []TypeSpec // every argument-taking type of the matrix
	typesFlags   = []TypeSpec{{K: KBool}, {K: KBool, W: WSlice}, {K: KBool, W: WPtr}, {W: WFunc0}, {W: WFunc0Err}, {K: KBool, W: WSlicePtr}}
	typesAll     []TypeSpec
)

func init() {
	for _, k := range scalarKinds {
		typesAllArgs = append(typesAllArgs, TypeSpec{K: k})
	}
	for _, k := range []TK{KString, KInt, KUint8, KFloat64, KDuration, KCelsius, KInt64} {
		typesAllArgs = append(typesAllArgs, TypeSpec{K: k, W: WSlice}, TypeSpec{K: k, W: WPtr})
	}
	typesAllArgs = append(typesAllArgs,
		TypeSpec{K: KString, W: WSlicePtr}, TypeSpec{K: KInt, W: WSlicePtr},
		TypeSpec{K: KString, W: WMap, MapKey: KString}, TypeSpec{K: KInt, W: WMap, MapKey: KString},
		TypeSpec{K: KString, W: WMap, MapKey: KInt}, TypeSpec{K: KFloat64, W: WMap, MapKey: KString},
		TypeSpec{K: KBool, W: WMap, MapKey: KString},
		TypeSpec{K: KString, W: WFunc1}, TypeSpec{K: KInt, W: WFunc1}, TypeSpec{K: KString, W: WFunc1Err}, TypeSpec{K: KDuration, W: WFunc1Err},
		TypeSpec{K: KPoint, W: WPtr}, TypeSpec{K: KVocab}, TypeSpec{K: KPicky},
		TypeSpec{K: KOnOff}, TypeSpec{K: KOnOff, W: WSlice}, TypeSpec{K: KOnOff, W: WPtr},
		TypeSpec{K: KInt, W: WMap, MapKey: KRes}, TypeSpec{K: KRes},
		TypeSpec{K: KString, W: WFunc1PErr},
		TypeSpec{K: KLevel}, TypeSpec{K: KLevel, W: WSlice}, TypeSpec{K: KLevel, W: WPtr},
	)
	typesAll = append(append([]TypeSpec{}, typesAllArgs...), typesFlags...)
	typesAll = append(typesAll, typesFlags...) // weight flags a little higher
}
