package main

import (
	"fmt"
	"sort"

	flags "github.com/jessevdk/go-flags"
)

// C08: command selection and option scoping.

func c08Cfg() *DeclCfg {
	types := []TypeSpec{{K: KString}, {K: KBool}, {K: KBool}, {K: KInt}, {K: KString, W: WSlice}, {K: KBool, W: WSlice}, {K: KFloat64}, {K: KUint8}, {K: KString, W: WMap, MapKey: KString}, {K: KDuration}}
	return &DeclCfg{
		MaxDepth: 4, MaxFan: 4, PCmds: 75, Types: types, OptsMin: 1, OptsMax: 3, SubGroupsMax: 1, PInline: 20, NestMax: 1,
		PNamespace: 25, PShortOnly: 20, PLongOnly: 20, PClash: 45, PCmdTwin: 25,
		PPos: 15, PosMax: 2, PRest: 30, PExec: 30, PByTag: 50, PSubOptional: 35, PAliases: 60, PHiddenCmd: 10,
		ParserOpts: []flags.Options{0, flags.PassDoubleDash, flags.HelpFlag | flags.PassDoubleDash, flags.HelpFlag, flags.PassAfterNonOption, flags.PassAfterNonOption | flags.PassDoubleDash},
		PosTypes:   []TypeSpec{{K: KString}},
	}
}

func sortedLog(l []CallEntry) []string {
	var r []string
	for _, e := range l {
		r = append(r, fmt.Sprintf("%s/%d/%q", e.Kind, e.ID, e.Args))
	}
	sort.Strings(r)
	return r
}

func cmdBefore(d *Decl, items []*Item, idx int) *Cmd {
	cur := d.Root
	for i := 0; i < idx && i < len(items); i++ {
		if items[i].Kind == ICmd {
			cur = items[i].Cmd
		}
	}
	return cur
}

// sameReferent: does the item (an option occurrence in its rendered spelling) still denote the same
// option(s) when it stands in command context cm?
func sameReferent(d *Decl, it *Item, cm *Cmd) bool {
	sc := d.ScopeOf(cm)
	chk := func(o *Opt, short bool) bool {
		if short {
			return sc.Short[o.Short] == o
		}
		return sc.Long[d.FullLong(o)] == o
	}
	switch it.Kind {
	case IOcc:
		return chk(it.Opt, it.Sp.IsShort())
	case IFlag, IOptNoArg:
		return chk(it.Opt, !it.Long)
	case ICluster:
		for _, f := range it.Flags {
			if !chk(f, true) {
				return false
			}
		}
		if it.Opt != nil {
			return chk(it.Opt, true)
		}
		return true
	}
	return false
}

func c08Run(c *Ctx) {
	r := c.R
	cfg := c08Cfg()
	if c.K%31 == 7 && !inHistTail(c, 40000, 600000) {
		// a very deep chain of commands (9-12 levels): the options of every enclosing command stay in scope
		cfg.MaxDepth, cfg.MaxFan, cfg.PCmds, cfg.PPos, cfg.OptsMax = 9+int(c.K/31)%4, 1, 100, 0, 2
	}
	d := GenDecl(c.Sub("d"), cfg)
	if inHistTail(c, 40000, 600000) {
		// scoping follows the declaration as it is now, not as it was when a command was first selected
		histCase(c, d, []string{"late-group-on-ancestor", "late-group-in-group", "rename-namespace", "delimiter", "rename-option", "alias-added", "command-renamed", "alias-added", "command-renamed"}, []string{"parse"})
		return
	}
	if len(d.Cmds) < 2 {
		return
	}
	mode := c.K % 5
	// a deep target so that alias/ancestor relations at depth 3-4 are exercised
	var deepest *Cmd
	for _, cm := range d.Cmds {
		if deepest == nil || cm.Depth > deepest.Depth || (cm.Depth == deepest.Depth && r.Chance(1, 3)) {
			deepest = cm
		}
	}
	target := deepest
	if r.Chance(1, 3) {
		target = d.Cmds[r.Intn(len(d.Cmds))]
	}
	sc := GenScenario(r, d, &ScenCfg{MaxItems: 10, POcc: 55, PCluster: 8, PPos: 7, PCmd: 25, PTerm: 10, PQuoted: 5, Target: target, PSiblingWord: 25, PCmdWordAsPos: 10})
	args := sc.Args()
	c.Case(caseOf(sc, args, nil))
	if sc.Exp.Unspec != "" {
		c.Unspec(sc.Exp.Unspec)
		return
	}
	b := d.Build()
	if b.Err != nil {
		c.Violate("setup-error", "generated declaration rejected: %v", b.Err)
		return
	}
	switch mode {
	case 3: // command required but none / unrecognised word given
		c08Diagnosis(c, d, sc)
		return
	}
	if sc.NeedsCommand() {
		c.Unspec("vector ends where a sub-command is still required")
		return
	}
	o := RunParse(b, args)
	c.Count("parses", 1)
	if o.Panic != nil {
		c.Violate("panic", "ParseArgs panicked: %s", o.Panic.Value)
		return
	}
	if o.Err != nil {
		if _, isSentinel := o.Err.(*sentinelErr); !isSentinel {
			c.Violate("valid-vector-rejected:"+errTypeName(o.Err), "valid vector rejected: %v", o.Err)
			return
		}
	}
	if sig, msg := CompareSuccess(sc, o, o.Err == nil); sig != "" {
		c.Violate("denote:"+sig, "%s", msg)
		return
	}
	shadow := 0
	for o := range sc.Exp.Seen {
		for _, p := range d.Opts {
			if p != o && ((o.Short != 0 && p.Short == o.Short) || (o.Long != "" && d.FullLong(p) == d.FullLong(o))) {
				shadow++
				break
			}
		}
	}
	aliasUsed := 0
	for _, it := range sc.Items {
		if it.Kind == ICmd && it.Via != it.Cmd.Name {
			aliasUsed++
		}
	}
	base := runOutcome(d, args)
	switch mode {
	case 1: // metamorphic: alias <-> name
		var idx []int
		for i, it := range sc.Items {
			if it.Kind == ICmd && len(it.Cmd.Aliases) > 0 {
				idx = append(idx, i)
			}
		}
		if len(idx) == 0 {
			break
		}
		i := idx[r.Intn(len(idx))]
		it := *sc.Items[i]
		names := append([]string{it.Cmd.Name}, it.Cmd.Aliases...)
		for _, n := range names {
			if n == it.Via {
				continue
			}
			it2 := it
			it2.Via = n
			items := append(append(append([]*Item{}, sc.Items[:i]...), &it2), sc.Items[i+1:]...)
			alt := runOutcome(d, RenderItems(d, items))
			c.Count("parses", 1)
			if df := diffOutcome(base, alt); df != "" {
				c.Violate("alias-vs-name", "command word %q replaced by %q changes the outcome: %s", it.Via, n, df)
				c.Note("argv_b", fmt.Sprintf("%q", RenderItems(d, items)))
				return
			}
		}
		c.Held(fmt.Sprintf("alias-swap/depth%d", it.Cmd.Depth), fmt.Sprintf("aliases=%d shadow=%d", len(it.Cmd.Aliases), shadow))
		return
	case 2: // metamorphic: an ancestor option occurrence moved to the right across command words
		var cand []int
		for i, it := range sc.Items {
			if it.Kind == IOcc || it.Kind == IFlag || it.Kind == ICluster || it.Kind == IOptNoArg {
				cand = append(cand, i)
			}
		}
		if len(cand) == 0 {
			break
		}
		i := cand[r.Intn(len(cand))]
		it := sc.Items[i]
		// destinations: any later index before the pass-through region at which the referent is unchanged and
		// no occurrence of the same option(s) is crossed
		end := passIndex(d, sc.Items)
		if i >= end {
			break
		}
		mine := map[*Opt]bool{}
		if it.Opt != nil {
			mine[it.Opt] = true
		}
		for _, f := range it.Flags {
			mine[f] = true
		}
		var dests []int
		crossedCmd := map[int]bool{}
		cc := false
		for j := i + 1; j < end; j++ {
			x := sc.Items[j]
			stop := false
			if x.Opt != nil && mine[x.Opt] {
				stop = true
			}
			for _, f := range x.Flags {
				if mine[f] {
					stop = true
				}
			}
			if stop {
				break
			}
			if x.Kind == ICmd {
				cc = true
			}
			if sameReferent(d, it, cmdBefore(d, sc.Items, j+1)) {
				dests = append(dests, j)
				crossedCmd[j] = cc
			} else {
				break // shadowed from here on
			}
		}
		if len(dests) == 0 {
			break
		}
		j := dests[r.Intn(len(dests))]
		var items []*Item
		items = append(items, sc.Items[:i]...)
		items = append(items, sc.Items[i+1:j+1]...)
		items = append(items, it)
		items = append(items, sc.Items[j+1:]...)
		argsB := RenderItems(d, items)
		alt := runOutcome(d, argsB)
		c.Count("parses", 1)
		// callbacks may legitimately run in a different order: compare the log as a multiset
		sb, sa := sortedLog(base.Log), sortedLog(alt.Log)
		base.Log, alt.Log = nil, nil
		if df := diffOutcome(base, alt); df != "" || !eqStrs(sb, sa) {
			c.Violate("move-ancestor-option-right", "moving %q from item %d to after item %d changes the outcome: %s", renderItem(d, it), i, j, df)
			c.Note("argv_b", fmt.Sprintf("%q", argsB))
			return
		}
		c.Held(fmt.Sprintf("move-right/crossed-cmd=%v", crossedCmd[j]), fmt.Sprintf("from=%d to=%d depth=%d shadow=%d", i, j, sc.Final.Depth, shadow))
		return
	}
	c.Held(fmt.Sprintf("denote/depth%d", sc.Final.Depth), fmt.Sprintf("alias=%d shadow=%d items=%d", aliasUsed, minInt(shadow, 3), len(sc.Items)))
}

// c08Diagnosis: missing / unrecognised command word where one is required; plain word where optional.
func c08Diagnosis(c *Ctx, d *Decl, sc *Scenario) {
	r := c.R
	// cut the vector after a random command word (or at the start) so that it ends in a command with children
	var cuts []int
	cuts = append(cuts, 0)
	for i, it := range sc.Items {
		if it.Kind == ICmd {
			cuts = append(cuts, i+1)
		}
	}
	cut := cuts[r.Intn(len(cuts))]
	items := append([]*Item{}, sc.Items[:cut]...)
	cur := cmdBefore(d, items, len(items))
	if len(cur.Subs) == 0 {
		return
	}
	if cur.Pos != nil {
		return // positionals take the word first: covered by C10
	}
	word := ""
	kind := r.Intn(3)
	scope := d.ScopeOf(cur)
	switch kind {
	case 0: // no word
	case 1: // unrecognised word: near miss of a child or the name of a sibling-of-parent / grandchild
		ch := cur.Subs[r.Intn(len(cur.Subs))]
		word = mutateWord(r, ch.Name, []string{"a", "c", "0", "x"})
		if len(ch.Subs) > 0 && r.Bool() {
			word = ch.Subs[0].Name // a grandchild's name is not a command here
		} else if cur.Parent != nil && r.Bool() {
			// a sibling of the current command (or the current command itself) is not one of its sub-commands
			sib := cur.Parent.Subs[r.Intn(len(cur.Parent.Subs))]
			word = sib.Name
			if len(sib.Aliases) > 0 && r.Bool() {
				word = sib.Aliases[0]
			}
		}
		if scope.Cmds[word] != nil || optionShaped(word) || word == "--" || word == "" {
			word = "zz" + word
		}
	case 2:
		word = fmt.Sprintf("w%d", r.Intn(100))
	}
	var args []string
	args = RenderItems(d, items)
	if kind != 0 {
		args = append(args, word)
	}
	c.Case(func() interface{} {
		return map[string]interface{}{"declaration": d.Describe(), "argv": fmt.Sprintf("%q", args), "context": cur.Name, "subcommands_optional": cur.SubOptional}
	})
	b := d.Build()
	o := RunParse(b, args)
	c.Count("parses", 1)
	if o.Panic != nil {
		c.Violate("panic", "ParseArgs panicked: %s", o.Panic.Value)
		return
	}
	if cur.SubOptional {
		if o.Err != nil {
			if _, isSentinel := o.Err.(*sentinelErr); !isSentinel {
				c.Violate("optional-subcommand-rejected:"+errTypeName(o.Err), "sub-commands are optional in %q but %q was rejected: %v", cur.Name, args, o.Err)
			}
			if !c.Violated() {
				c.Held("diagnosis/optional", fmt.Sprintf("kind=%d depth=%d", kind, cur.Depth))
			}
			return
		}
		want := []string{}
		if kind != 0 {
			want = []string{word}
		}
		if !eqStrs(o.Rest, want) && !(len(o.Rest) == 0 && len(want) == 0) {
			c.Violate("optional-subcommand-word-not-argument", "sub-commands optional in %q: remaining arguments %q, expected %q", cur.Name, o.Rest, want)
			return
		}
		if !eqStrs(o.Active, chainNames(cur.Chain())) {
			c.Violate("optional-subcommand-chain", "active chain %v, expected %v", o.Active, chainNames(cur.Chain()))
			return
		}
		c.Held("diagnosis/optional", fmt.Sprintf("kind=%d depth=%d", kind, cur.Depth))
		return
	}
	// a missing required option of the chain is reported first (ErrRequired): keep those out
	for _, cm := range cur.Chain() {
		for _, op := range cm.OwnOpts() {
			if op.Required {
				return
			}
		}
	}
	want := flags.ErrCommandRequired
	if kind != 0 {
		want = flags.ErrUnknownCommand
	}
	if o.FErr == nil || o.FErr.Type != want {
		c.Violate(fmt.Sprintf("diagnosis:%s", want), "context %q requires a command; argv %q: got %s (%v), want %s", cur.Name, args, errTypeName(o.Err), o.Err, want)
		return
	}
	if len(callbacksOnly(o.Log)) != len(o.Log) {
		c.Violate("diagnosis:executed", "something was executed although the command is missing/unknown: %v", o.Log)
		return
	}
	c.Held(fmt.Sprintf("diagnosis/%s", want), fmt.Sprintf("depth=%d subs=%d", cur.Depth, len(cur.Subs)))
}

func init() {
	register(&Property{
		ID:    "C08",
		Title: "Command selection and option scoping",
		Cases: func(tier string) int64 {
			switch tier {
			case "thorough":
				return 600000 + 50000 // + history cases
			case "race":
				return 0
			}
			return 40000 + 3333 // + history cases
		},
		Run:           c08Run,
		MinNontrivial: 300,
		Rule: "case k: a command tree of depth <=4, fan-out <=4 with aliases (60%), optional-sub-command marks, tag-declared and AddCommand-declared nodes mixed and deliberate short/long name clashes between levels (45% of options, random types so a wrong binding shows as a value or ErrMarshal); an intent vector interleaving command words (by name or alias) with options of all levels. k mod 5 selects the oracle: 0,4 denotation of chain/values; 1 alias<->name swap must not change the outcome; 2 an option occurrence moved to any later place (across command words) where it still denotes the same option must not change the outcome; 3 missing / unrecognised command word (ErrCommandRequired / ErrUnknownCommand, or ordinary argument when sub-commands are optional). " +
			"Non-trivial = the relation was evaluated; distinct = (oracle, depth, aliases, shadowing count, positions).",
		Assumptions: []string{"callback order may change when an occurrence is moved: logs compared as multisets there", "an occurrence is never moved across another occurrence of the same option"},
		Technique:   "runtime reference-model monitor (chain/value denotation) + metamorphic relations (alias swap, ancestor option moved right) executed on the real parser; metamorphic history monitor ([use, change of the public model, use] on one parser vs. a fresh parser of the changed declaration)",
		LevelText:   "Exploration over tree shapes and interleavings with a denotation oracle plus two metamorphic relations; appropriate because scoping is a relation between positions of tokens, which example tests cannot enumerate.",
		LevelNote:   "Trusted: the scope model (innermost declaration wins, ancestors stay visible) which is a transcription of the statement.",
		DesignRef:   "§4 C08",
	})
}
