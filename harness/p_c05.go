package main

import (
	"fmt"
	"os"
	"reflect"
	"strconv"
	"strings"

	flags "github.com/jessevdk/go-flags"
)

// C05: defaults and value-source precedence.

var c05Types = []TypeSpec{
	{K: KString}, {K: KInt}, {K: KUint8}, {K: KFloat64}, {K: KDuration}, {K: KCelsius},
	{K: KString, W: WPtr}, {K: KInt, W: WPtr},
	{K: KString, W: WSlice}, {K: KInt, W: WSlice}, {K: KString, W: WSlicePtr},
	{K: KString, W: WMap, MapKey: KString}, {K: KInt, W: WMap, MapKey: KString},
	{K: KBool},
	{K: KBag}, {K: KOnOff}, {K: KBool, W: WSlice},
	{K: KString, W: WFunc1},
}

var c05IniModes = []string{"none", "normal-before-cli", "as-defaults-before-cli", "as-defaults-after-cli"}
var c05EnvModes = []string{"unset", "set", "empty"}

// c05Value: a transparent value text for type t (usable bare in INI, in env with any delimiter, on the CLI).
func c05Value(r *Rand, t TypeSpec, tag string) string {
	switch {
	case t.W == WMap:
		return fmt.Sprintf("k%d:%s", r.Intn(3), c05Value(r, TypeSpec{K: t.K}, tag))
	case t.K == KString:
		if tag == "env" && r.Chance(1, 3) {
			// (a value that itself contains '=': a DSN, base64 padding, a key=value list)
			return fmt.Sprintf("%s=%d=x", tag, r.Intn(1000))
		}
		return fmt.Sprintf("%s%d", tag, r.Intn(1000))
	case t.K == KBool:
		return "true"
	case t.K == KOnOff:
		return []string{"on", "off"}[r.Intn(2)]
	case t.K == KBag:
		return fmt.Sprintf("%s%d", tag, r.Intn(1000))
	case t.K == KFloat64:
		return fmt.Sprintf("%d.%d", r.Intn(100), r.Intn(100))
	case t.K == KDuration:
		return fmt.Sprintf("%dm%ds", r.Intn(50), r.Intn(50))
	case t.K == KCelsius:
		return fmt.Sprintf("%dC", r.Intn(200))
	case t.K == KUint8:
		return strconv.Itoa(r.Intn(250))
	}
	return strconv.Itoa(r.Intn(100000))
}

const c05Prod = 18 * 2 * 3 * 3 * 4 * 3 * 4

func c05Run(c *Ctx) {
	r := c.R
	k := c.K
	if c.W.Tier != "race" && c.Sub("api?").Intn(16) == 3 {
		// a parser made of options registered through the public AddOption API: the same ranking of sources
		apiMiniSources(c)
		return
	}
	if c.W.Tier != "race" && ((c.W.Tier == "thorough" && k >= c05Prod*30) || (c.W.Tier != "thorough" && k >= c05Prod)) {
		// the environment variable an option reads is the one its declaration names NOW
		hc := &DeclCfg{MaxDepth: 2, MaxFan: 2, PCmds: 50, Types: c05Types[:13], OptsMin: 1, OptsMax: 3, SubGroupsMax: 2, PInline: 20, NestMax: 2,
			PEnv: 80, PEnvNS: 80, PEnvDelim: 50, PDefault: 30, PByTag: 50, PExec: 30, PSubOptional: 100, PNamespace: 20,
			ParserOpts: []flags.Options{0, flags.PassDoubleDash}, EnvDelims: []string{"", "_", "__", "-"}}
		dh := GenDecl(c.Sub("dh"), hc)
		c.Case(func() interface{} { return map[string]interface{}{"declaration_after_the_change": dh.Describe()} })
		if hl := histEnvStage(c, dh); hl != "" && !c.Violated() {
			c.Held("history/"+hl, fmt.Sprintf("opts=%d", minInt(len(dh.Opts), 20)))
		}
		return
	}
	t := c05Types[k%int64(len(c05Types))]
	k /= int64(len(c05Types))
	pre := k%2 == 1
	k /= 2
	ndef := int(k % 3)
	k /= 3
	envMode := c05EnvModes[k%3]
	k /= 3
	iniMode := c05IniModes[k%4]
	k /= 4
	ncli := int(k % 3)
	k /= 3
	home := int(k % 4) // 0 root, 1 nested group (env-namespace), 2 doubly nested, 3 command
	multi := t.IsMulti()
	isBool := t.K == KBool && t.W == WScalar
	if isBool || t.K == KOnOff || t.K == KBool {
		ndef = 0 // (default tags on bool-kinded types are refused at declaration time)
	}
	isFunc := t.IsFunc()
	if isFunc {
		// a callback option: the callback runs for the values of the highest-ranked source only (judged without
		// INI: a callback cannot be "overridden" after the fact, so the order of INI reading is a different question)
		pre, iniMode = false, "none"
	}
	if t.K == KBag {
		// an unmarshaler that appends: the statement's "replace" cannot be asked of the occurrences of one source,
		// but a lower-ranked source must still not leak into the result: judged for default tags / environment
		// over pre-stored content only
		ncli, iniMode = 0, "none"
	}
	// (a scalar with two default tags ends with the last one)

	d := &Decl{Options: flags.Options([]flags.Options{0, flags.PassDoubleDash, flags.HelpFlag, flags.IgnoreUnknown, flags.IgnoreUnknown | flags.PassDoubleDash}[r.Intn(5)])}
	d.EnvDelim = []string{"", "_", "__", "-"}[r.Intn(4)]
	d.NsDelim = []string{"", ".", "-"}[r.Intn(3)]
	root := &Cmd{ID: d.NewID(), Name: "app", SubOptional: true}
	root.G = &Grp{Cmd: root, Field: "G0"}
	if r.Chance(1, 3) {
		// an env-namespace on the parser's own group can only be assigned programmatically (Build does so)
		root.G.EnvNS = "RT"
	}
	d.Root = root
	d.Cmds = append(d.Cmds, root)
	d.Grps = append(d.Grps, root.G)
	hostCmd := root
	g := root.G
	section := "Application Options"
	if home == 3 {
		sc := &Cmd{ID: d.NewID(), Name: "sub", Parent: root, Depth: 1, ByTag: r.Bool(), Field: "Csub", SubOptional: true}
		sc.G = &Grp{Cmd: sc, Field: "Gs"}
		root.Subs = append(root.Subs, sc)
		d.Cmds = append(d.Cmds, sc)
		d.Grps = append(d.Grps, sc.G)
		hostCmd, g = sc, sc.G
		section = "sub"
	}
	nest := 0
	if home == 1 {
		nest = 1
	} else if home == 2 {
		nest = 2
	}
	for i := 0; i < nest; i++ {
		sg := &Grp{Cmd: hostCmd, Parent: g, Field: fmt.Sprintf("N%d", i), Desc: fmt.Sprintf("Nest %d", i)}
		if r.Chance(3, 4) {
			sg.EnvNS = fmt.Sprintf("NS%d", i)
			if g.EnvNS != "" && r.Chance(1, 3) {
				// the inner namespace happens to start with the outer one and the delimiter
				sg.EnvNS = g.EnvNS + d.envDelim() + "IN"
			}
		}
		if r.Bool() {
			sg.Namespace = fmt.Sprintf("ns%d", i)
			if g.Namespace != "" && r.Chance(1, 3) {
				sg.Namespace = g.Namespace + d.nsDelim() + "in"
			}
		}
		g.Subs = append(g.Subs, sg)
		d.Grps = append(d.Grps, sg)
		g = sg
		section = sg.Desc
	}
	if r.Bool() && section != "sub" {
		section = flipCase(section) // group descriptions are matched case-insensitively (command paths are not)
	}
	focus := &Opt{ID: d.NewID(), Field: "Focus", Long: "focus", Short: 'f', T: t, Grp: g, Cmd: hostCmd}
	if g.Namespace != "" && r.Chance(1, 3) {
		focus.Long = g.Namespace + d.nsDelim() + "focus"
	}
	envKey := ""
	if envMode != "unset" || r.Bool() {
		focus.Env = fmt.Sprintf("VH_C05_%d_%d", c.K, c.Seed)
		if g.EnvNS != "" && r.Chance(1, 3) {
			// the key happens to start with its own namespace and the delimiter (the prefix is still added)
			focus.Env = g.EnvNS + d.envDelim() + focus.Env
		}
		if multi && r.Chance(2, 3) {
			focus.EnvDelim = []string{",", ";"}[r.Intn(2)]
			focus.EnvDelimViaAPI = r.Chance(1, 3)
		}
	}
	for i := 0; i < ndef; i++ {
		focus.Defaults = append(focus.Defaults, c05Value(r, t, "def"))
	}
	if pre && !isBool {
		n := 1
		if multi {
			n = r.Range(1, 2)
		}
		for i := 0; i < n; i++ {
			focus.Initial = append(focus.Initial, c05Value(r, t, "pre"))
		}
	}
	g.Opts = append(g.Opts, focus)
	d.Opts = append(d.Opts, focus)
	// a distractor option that shares the sources but must not interfere
	other := &Opt{ID: d.NewID(), Field: "Other", Long: "other", T: TypeSpec{K: KString, W: WSlice}, Grp: root.G, Cmd: root, Defaults: []string{"od1"}}
	root.G.Opts = append(root.G.Opts, other)
	d.Opts = append(d.Opts, other)

	b := d.Build()
	if b.Err != nil {
		c.Violate("setup-error", "declaration rejected: %v", b.Err)
		return
	}
	if focus.EnvDelimViaAPI {
		// (a program that binds environment variables itself: it walks the options and assigns key and delimiter)
		var fo *flags.Option
		if focus.Cmd.FC != nil {
			fo = focus.Cmd.FC.Group.FindOptionByLongName(d.FullLong(focus))
		}
		if fo == nil || fo.Field().Name != focus.Field {
			focus.EnvDelimViaAPI = false
			b = d.Build()
			if b.Err != nil {
				return
			}
		} else {
			fo.EnvDefaultDelim = focus.EnvDelim
		}
	}
	if isBool && pre {
		focus.Val.SetBool(true)
	}
	envKey = d.FullEnv(focus)
	// sources
	var envVals, iniVals, cliVals []string
	if envMode == "set" {
		n := 1
		if multi && focus.EnvDelim != "" {
			n = r.Range(1, 3)
		}
		for i := 0; i < n; i++ {
			v := c05Value(r, t, "env")
			if isBool && r.Bool() {
				v = "false"
			}
			envVals = append(envVals, v)
		}
		os.Setenv(envKey, strings.Join(envVals, focus.EnvDelim))
		defer os.Unsetenv(envKey)
	} else if envMode == "empty" {
		os.Setenv(envKey, "")
		defer os.Unsetenv(envKey)
	}
	iniName := r.Pick([]string{"Focus", d.FullLong(focus)})
	iniText := ""
	if iniMode != "none" {
		n := 1
		if multi {
			n = r.Range(1, 3)
		}
		iniText = "[" + section + "]\n"
		if r.Chance(1, 4) {
			// the header appears a first time without entries (a comment at most): its entries still count once
			iniText += r.Pick([]string{"", "; nothing here yet\n"}) + "[" + section + "]\n"
		}
		if d.Options&flags.IgnoreUnknown != 0 && r.Bool() {
			// an entry nobody knows is skipped - the entries after it are applied all the same
			iniText += "zz_unknown_entry = 1\n"
		}
		for i := 0; i < n; i++ {
			v := c05Value(r, t, "ini")
			if isBool && r.Bool() {
				v = "false"
			}
			iniVals = append(iniVals, v)
			iniText += iniName + " = " + v + "\n"
		}
	}
	var args []string
	if home == 3 && (ncli > 0 || r.Bool()) {
		args = append(args, "sub")
	}
	for i := 0; i < ncli; i++ {
		if t.IsFlag() {
			cliVals = append(cliVals, "true")
			args = append(args, r.Pick([]string{"-f", "--" + d.FullLong(focus)}))
			continue
		}
		v := c05Value(r, t, "cli")
		cliVals = append(cliVals, v)
		switch r.Intn(3) {
		case 0:
			args = append(args, "-f", v)
		case 1:
			args = append(args, "--"+d.FullLong(focus)+"="+v)
		default:
			args = append(args, "-f"+v)
		}
	}
	if home == 3 && ncli > 0 && args[0] != "sub" {
		args = append([]string{"sub"}, args...)
	}
	c.Case(func() interface{} {
		return map[string]interface{}{"declaration": d.Describe(), "env": map[string]interface{}{"key": envKey, "mode": envMode, "values": envVals, "delim": focus.EnvDelim},
			"ini_mode": iniMode, "ini_text": iniText, "argv": fmt.Sprintf("%q", args), "prestored": focus.Initial, "defaults": focus.Defaults}
	})
	// execute in the order the cell prescribes
	var iniErr, cliErr error
	doIni := func() {
		ip := flags.NewIniParser(b.P)
		ip.ParseAsDefaults = iniMode != "normal-before-cli"
		iniErr = ip.Parse(strings.NewReader(iniText))
	}
	pi := safely(func() {
		if iniMode == "normal-before-cli" || iniMode == "as-defaults-before-cli" {
			doIni()
		}
		_, cliErr = b.P.ParseArgs(args)
		if iniMode == "as-defaults-after-cli" {
			doIni()
		}
	})
	c.Count("evaluations", 1)
	if pi != nil {
		c.Violate("panic:"+panicSite(pi.Stack), "panic: %s", pi.Value)
		return
	}
	emptyProvides := envMode == "empty" && t.K == KString && (t.W == WScalar || t.W == WPtr)
	if envMode == "empty" && ncli == 0 && iniMode == "none" && !emptyProvides {
		// a set-but-empty variable on a non-string option: the statement does not say whether it provides a
		// value ("" does not denote one for these types); only totality is asserted
		c.Unspec("set-but-empty environment variable is the top source of a non-string option")
		return
	}
	if envMode == "empty" {
		// with a higher-ranked source present the empty variable must not matter ... unless applying it fails first
		if cliErr != nil || iniErr != nil {
			c.Unspec("set-but-empty environment variable made a lower-ranked source fail")
			return
		}
	}
	if iniErr != nil || cliErr != nil {
		c.Violate("valid-input-rejected", "ini error %v, cli error %v", iniErr, cliErr)
		return
	}
	if msg := aliasDamage(d); msg != "" {
		// (an option fed from a higher-ranked source gets a NEW value; the list or map the program stored in the
		// field beforehand - possibly shared with another option that relies on it - stays the program's)
		c.Violate("program-data-overwritten", "%s", msg)
		return
	}
	// expected: the highest-ranked source that is present
	top := "zero"
	var vals []string
	switch {
	case ncli > 0:
		top, vals = "cli", cliVals
	case iniMode != "none":
		top, vals = "ini", iniVals
	case envMode == "set":
		top, vals = "env", envVals
	case emptyProvides:
		// the variable is set: its (empty) text is the value of a string option
		top, vals = "env-empty", []string{""}
	case ndef > 0:
		top, vals = "default", focus.Defaults
	case pre:
		top, vals = "prestored", focus.Initial
	}
	if isFunc {
		var want []string
		for _, v := range vals {
			want = append(want, strconv.Quote(v))
		}
		var got []string
		for _, e := range b.Log.E {
			if e.Kind == "callback" {
				got = append(got, e.Args...)
			}
		}
		if !eqStrs(got, want) {
			c.Violate(fmt.Sprintf("precedence:callback:top=%s:env=%s", top, envMode), "callback option: called with %q, the highest-ranked source present (%s) gives %q [defaults=%q env=%q cli=%q]", got, top, want, focus.Defaults, envVals, cliVals)
			return
		}
		c.Held(fmt.Sprintf("%s/top=%s/ini=%s", t, top, iniMode), fmt.Sprintf("ndef=%d env=%s ncli=%d home=%d", ndef, envMode, ncli, home))
		return
	}
	exp := reflect.New(t.GoType()).Elem()
	if isBool {
		switch top {
		case "cli":
			exp.SetBool(true)
		case "ini", "env":
			exp.SetBool(vals[len(vals)-1] == "true")
		case "prestored":
			exp.SetBool(true)
		}
		if top == "zero" && pre {
			exp.SetBool(true)
		}
	} else {
		for _, v := range vals {
			if !applyRef(exp, t, 0, v) {
				c.Unspec("value without reference reading")
				return
			}
		}
	}
	got := Canon(focus.Val)
	want := Canon(exp)
	cell := fmt.Sprintf("%s/top=%s/ini=%s", t, top, iniMode)
	if got != want {
		kind := "scalar"
		if multi {
			kind = "multi"
		}
		c.Violate(fmt.Sprintf("precedence:%s:top=%s:ini=%s:env=%s", kind, top, iniMode, envMode), "option %s: field holds %s, the highest-ranked source present (%s) gives %s [pre=%v defaults=%q env=%q ini=%q(%s) cli=%q]", t, got, top, want, focus.Initial, focus.Defaults, envVals, iniVals, iniMode, cliVals)
		return
	}
	// the distractor keeps its default
	if o := Canon(other.Val); o != `["od1"]` {
		c.Violate("distractor-disturbed", "unrelated option holds %s, expected its default [\"od1\"]", o)
		return
	}
	c.Held(cell, fmt.Sprintf("pre=%v ndef=%d env=%s ncli=%d home=%d delim=%q nvals=%d", pre, ndef, envMode, ncli, home, focus.EnvDelim, len(vals)))
}

func init() {
	register(&Property{
		ID:    "C05",
		Title: "Defaults and value-source precedence",
		Cases: func(tier string) int64 {
			switch tier {
			case "thorough":
				return c05Prod*30 + 51000 // the product 30 times over, then histories
			case "race":
				return 100000
			}
			return c05Prod + 1700 // the exhaustive product, then histories
		},
		Run:           c05Run,
		MinNontrivial: 300,
		RaceCases:     100000,
		Rule: "1 case in 16: a parser built through the API only (NewNamedParser, AddGroup with env namespace, 1-3 options registered with AddOption carrying Default / EnvDefaultKey / EnvDefaultDelim, lists and maps with pre-existing content): command line > environment > Default > stored content, judged on the program's own variables. case k decodes to the exhaustive product: 18 option types (scalars, pointers, slices, slice of pointers, maps, Duration, Unmarshalers incl. a bool-kinded and an appending one, bool, []bool counting flag, func(string) callback) x pre-stored value {absent, present} x default tags {0,1,2} x environment {unset, set, set-but-empty} x INI {none, normal before CLI, as-defaults before CLI, as-defaults after CLI} x command-line occurrences {0,1,2} x home {root, group with env-namespace, doubly nested, sub-command}; random values, env-delim {none , ;}, 4 env-namespace delimiters, env keys / inner namespaces / long names that happen to start with their own namespace and delimiter, section names in random case, INI key by field name or namespaced long name, 1-3 entries for multi-valued options. " +
			"Oracle: the field equals exactly the reference conversion of the values of the highest-ranked source present (CLI > INI > env > default tags > pre-stored); an unrelated option keeps its default. Non-trivial = judged cell; distinct = (type, top source, INI mode, full source subset, home, delimiter, #values). The cases after the product are histories: [parse or help, rename an env-namespace / change the env-namespace delimiter, export the variable under its new name, parse] compared with a fresh parser of the changed declaration.",
		Assumptions: []string{"set-but-empty environment variables are unspecified (the unchanged code treats them as providing \"\")", "normal-mode INI read after the command line is not ranked by the statement and is not generated", "callback options are judged without INI (the callback runs for the values of the highest-ranked of command line / environment / default tags)"},
		Technique:   "runtime reference-model monitor over the exhaustive product of value sources, real environment variables and INI readers; race detector on a concurrent re-run with disjoint env keys (thorough); metamorphic history monitor ([use, change of the public model, use] on one parser vs. a fresh parser of the changed declaration); ownership monitor on the lists and maps the program stored into option fields before parsing",
		LevelText:   "Exploration with an exhaustive source-subset matrix: every cell of (type x sources x order) is executed at every seed and judged by a precedence oracle; the thorough tier repeats each cell 30x with fresh values and re-runs 10^5 cases on 16 goroutines under -race.",
		LevelNote:   "Trusted: the harness's rendering of 'transparent' values (bare INI values, env values without the delimiter) and the reference conversions.",
		DesignRef:   "§4 C05",
	})
}
