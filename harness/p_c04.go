package main

import (
	"fmt"
	"strings"

	flags "github.com/jessevdk/go-flags"
)

// C04: parsing is total, contained and typed.

var c04Hostile = []string{
	"", "-", "--", "---", "-=", "--=", "--=x", "-\xff", "--\xff\xfe", "\x00", "-\x00", "--\x00=\x00", "é", "-é", "-éé", "--é=", "-\xc3", "--\xe4\xb8",
	"\"abc", "\"\\xZZ\"", "\"ok\"", "=\"", "=", "a=b", "-1", "-9999999999999999999", "1e999", "-0x1p-2", "-.5", "-Inf", "-NaN", " ", "- ", "-- x", "-a-b", "--a--b",
	"-h", "--help", "--help=1", "-hh", "-h=", "--h", "-😀", "-😀=x", "--=", "-=-", "-:-", "--:", "-\"", "--\"x\"", "k:", ":v", ":", "k:v:w", "-\n", "--a\nb=c",
}

func c04DeclCfg() *DeclCfg {
	cfg := c01DeclCfg(TypeSpec{K: KString})
	cfg.Types = typesAll
	cfg.PChoices, cfg.POptional, cfg.PRequired, cfg.PBase, cfg.PDefault = 20, 15, 15, 30, 15
	cfg.NonASCII = true
	cfg.NonASCIICmd = true
	cfg.PDesc = 60
	cfg.PosTypes = []TypeSpec{{K: KString}}
	cfg.PPosReq = 30
	cfg.MaxDepth = 2
	return cfg
}

var allParserOpts []flags.Options

func init() {
	for m := 0; m < 32; m++ {
		var o flags.Options
		if m&1 != 0 {
			o |= flags.HelpFlag
		}
		if m&2 != 0 {
			o |= flags.PassDoubleDash
		}
		if m&4 != 0 {
			o |= flags.IgnoreUnknown
		}
		if m&8 != 0 {
			o |= flags.PrintErrors
		}
		if m&16 != 0 {
			o |= flags.PassAfterNonOption
		}
		allParserOpts = append(allParserOpts, o)
	}
}

func mutateName(r *Rand, s string) string {
	if s == "" {
		return s
	}
	bs := []byte(s)
	switch r.Intn(7) {
	case 0:
		if f := flipCase(s); f != "" {
			return f
		}
	case 1:
		return s[:len(s)-1]
	case 2:
		return s + string(rune('a'+r.Intn(26)))
	case 3:
		i := r.Intn(len(bs))
		return string(append(bs[:i:i], bs[i+1:]...))
	case 4:
		bs[r.Intn(len(bs))] = byte(r.Intn(256))
		return string(bs)
	case 5:
		if i := strings.IndexAny(s, ".-:_"); i >= 0 {
			return s[i+1:]
		}
	}
	return s
}

var c04Values = []string{"", "abc", "0", "1", "-1", "127", "128", "-129", "255", "256", "65536", "4294967296", "9223372036854775807", "9223372036854775808", "-9223372036854775809",
	"18446744073709551616", "1e400", "1e-400", "3.5e38", "nan", "0x10", "1_000", " 1", "1 ", "+1", "1h", "1x", "1.5ns", "true", "false", "yes", "12C", "1,2", "k:v", "k:", "k", "\"q\"", "\"q", "\"\\", "é", "\xff", "-x", "--y"}

func c04Vector(r *Rand, d *Decl) []string {
	var pool []string
	for _, o := range d.Opts {
		if o.Short != 0 {
			s := string(o.Short)
			pool = append(pool, "-"+s, "-"+s+"=", "-"+s+c04Values[r.Intn(len(c04Values))], "-"+s+"="+c04Values[r.Intn(len(c04Values))], "-"+s+s+s, "-"+s+"Z"+s)
		}
		if o.Long != "" {
			l := d.FullLong(o)
			pool = append(pool, "--"+l, "--"+l+"=", "--"+l+"="+c04Values[r.Intn(len(c04Values))], "--"+mutateName(r, l), "--"+mutateName(r, l)+"=1", "-"+l, "---"+l)
			if !o.T.IsFlag() && len(o.Choices) == 0 {
				pool = append(pool, "--"+l+"="+GenValueText(r, o))
			}
		}
	}
	for _, cm := range d.Cmds[1:] {
		pool = append(pool, cm.Name, mutateName(r, cm.Name))
		pool = append(pool, cm.Aliases...)
	}
	n := r.Range(0, 10)
	big := r.Intn(60)
	var args []string
	for i := 0; i < n; i++ {
		switch x := r.Intn(10); {
		case x < 5 && len(pool) > 0:
			args = append(args, pool[r.Intn(len(pool))])
		case x < 7:
			args = append(args, c04Hostile[r.Intn(len(c04Hostile))])
		case x < 8:
			args = append(args, c04Values[r.Intn(len(c04Values))])
		case x < 9:
			args = append(args, fmt.Sprintf("t%d", r.Intn(10)))
		default:
			// random bytes
			l := r.Range(1, 6)
			b := make([]byte, l)
			for j := range b {
				b[j] = byte(r.Intn(256))
			}
			if r.Bool() {
				b[0] = '-'
			}
			args = append(args, string(b))
		}
	}
	switch big {
	case 0: // a very long vector
		base := append([]string{}, args...)
		for len(args) < 3000 && len(base) > 0 {
			args = append(args, base...)
		}
	case 1: // one very long token
		tok := strings.Repeat("x", 65536)
		if r.Bool() && len(pool) > 0 {
			tok = pool[r.Intn(len(pool))] + tok
		} else if r.Bool() {
			tok = "-" + strings.Repeat("v", 5000)
		}
		args = append(args, tok)
		if n > 0 {
			j := r.Intn(len(args))
			args[j], args[len(args)-1] = args[len(args)-1], args[j]
		}
	}
	return args
}

func panicSite(stack string) string {
	// first go-flags frame below the panic
	lines := strings.Split(stack, "\n")
	seenPanic := false
	for _, l := range lines {
		if strings.HasPrefix(l, "panic(") {
			seenPanic = true
			continue
		}
		if seenPanic && strings.HasPrefix(l, "github.com/jessevdk/go-flags.") {
			f := strings.TrimPrefix(l, "github.com/jessevdk/go-flags.")
			if i := strings.LastIndex(f, "("); i > 0 {
				f = f[:i]
			}
			return f
		}
	}
	return "unknown-site"
}

var c04Allowed = map[flags.ErrorType]bool{
	flags.ErrExpectedArgument: true, flags.ErrUnknownFlag: true, flags.ErrMarshal: true, flags.ErrHelp: true, flags.ErrNoArgumentForBool: true,
	flags.ErrRequired: true, flags.ErrCommandRequired: true, flags.ErrUnknownCommand: true, flags.ErrInvalidChoice: true,
}

// c04Observe runs one parse under the fd observer and checks containment, typing and output discipline.
func c04Observe(c *Ctx, d *Decl, b *Built, args []string) *ParseObs {
	concurrent := c.W.Tier == "race"
	var s1, s2 int64
	if !concurrent {
		s1, s2 = c.W.Cap.Sizes()
	}
	o := RunParse(b, args)
	c.Count("parses", 1)
	if o.Panic != nil {
		c.Violate("panic:"+panicSite(o.Panic.Stack), "ParseArgs panicked: %s", o.Panic.Value)
		c.Note("stack", o.Panic.Stack)
		return o
	}
	if !concurrent {
		out1, out2 := c.W.Cap.ReadFrom(s1, s2)
		c.Count("bytes_seen_fd1", int64(len(out1)))
		c.Count("bytes_seen_fd2", int64(len(out2)))
		pe := d.Options&flags.PrintErrors != 0
		want1, want2 := "", ""
		if pe && o.Err != nil {
			if o.FErr != nil && o.FErr.Type == flags.ErrHelp {
				want1 = o.Err.Error() + "\n"
			} else {
				want2 = o.Err.Error() + "\n"
			}
		}
		if out1 != want1 || out2 != want2 {
			kind := "stray-output"
			if pe {
				kind = "printerrors-discipline"
			}
			c.Violate("output:"+kind, "fd1 got %d bytes (want %d), fd2 got %d bytes (want %d); PrintErrors=%v err=%s; fd1=%q fd2=%q", len(out1), len(want1), len(out2), len(want2), pe, errTypeName(o.Err), clip(out1, 200), clip(out2, 200))
			return o
		}
		if s1+s2 > 1<<20 {
			c.W.Cap.Reset()
		}
	}
	if o.Err != nil {
		if o.FErr == nil {
			c.Violate("untyped-error:"+fmt.Sprintf("%T", o.Err), "rejection is not a *flags.Error: %v (%T)", o.Err, o.Err)
			return o
		}
		if !c04Allowed[o.FErr.Type] {
			c.Violate("undocumented-type:"+o.FErr.Type.String(), "rejection has type %s: %s", o.FErr.Type, clip(o.FErr.Message, 300))
			return o
		}
	}
	return o
}

func clip(s string, n int) string {
	if len(s) > n {
		return s[:n] + "…"
	}
	return s
}

func c04Run(c *Ctx) {
	r := c.R
	mode := c.K % 4
	if mode == 3 {
		c04SingleFault(c)
		return
	}
	opts := allParserOpts[(c.K/4)%32]
	if c.W.Tier == "race" {
		opts &^= flags.PrintErrors
	}
	cfg := c04DeclCfg()
	cfg.ParserOpts = []flags.Options{opts}
	d := GenDecl(c.Sub("d"), cfg)
	if inHistTail(c, 64000, 3000000) {
		// totality and typed rejections also hold on a parser that was used before and whose model was edited
		histCase(c, d, histAllParseKinds, []string{"parse", "help"})
		return
	}
	special := ""
	if c.K%5 == 1 {
		// commands whose Execute asks for help itself: with PrintErrors that text goes to standard output, once,
		// whether or not the built-in help flag is enabled
		for _, cm := range d.Cmds[1:] {
			if cm.Exec && r.Chance(1, 2) {
				cm.ExecHelp = true
			}
		}
	}
	if c.K%97 == 5 {
		// a no-argument option that carries choice tags: a declaration the library accepts
		for _, o := range d.Opts {
			if o.T.K == KBool && !o.T.IsFunc() && o.T.W != WMap {
				o.Choices = []string{"true", "false"}
				special = "flag-with-choices"
				break
			}
		}
	}
	b := d.Build()
	if b.Err != nil {
		c.Violate("setup-error", "generated declaration rejected: %v", b.Err)
		c.Case(func() interface{} { return d.Describe() })
		return
	}
	args := c04Vector(r, d)
	var added []*apiOpt
	if c.K%7 == 2 {
		// options registered through the public AddOption API (no struct field behind them) are declarations the
		// library accepts: mention them in every shape among the hostile tokens
		ar := c.Sub("api")
		added = addAPIOptions(ar, b, false)
		special = "api-added-options"
		pool := apiHostileTokens(ar, added)
		for i, n := 0, ar.Range(0, 4); i < n; i++ {
			j := ar.Intn(len(args) + 1)
			ins := strings.Split(pool[ar.Intn(len(pool))], "\x01")
			args = append(args[:j], append(ins, args[j:]...)...)
		}
		c.Note("added", describeAPI(added))
	}
	c.Case(func() interface{} {
		a := args
		if len(a) > 40 {
			a = append(append([]string{}, a[:20]...), fmt.Sprintf("… %d tokens …", len(args)-20))
		}
		var cl []string
		for _, t := range a {
			cl = append(cl, clip(t, 200))
		}
		return map[string]interface{}{"declaration": d.Describe(), "argv": fmt.Sprintf("%q", cl), "argc": len(args), "special": special}
	})
	o := c04Observe(c, d, b, args)
	if c.Violated() {
		if special != "" {
			c.sig = "special:" + special + ":" + c.sig
		}
		return
	}
	// cheap sound implications
	anyOptLike := false
	for _, a := range args {
		if optionShaped(a) {
			anyOptLike = true
		}
	}
	if o.FErr != nil {
		t := o.FErr.Type
		appHelp := false
		for _, cm := range d.Cmds {
			appHelp = appHelp || cm.ExecHelp
		}
		if !anyOptLike && (t == flags.ErrUnknownFlag || t == flags.ErrExpectedArgument || t == flags.ErrNoArgumentForBool || (t == flags.ErrHelp && !appHelp)) {
			c.Violate("implication:no-option-token:"+t.String(), "no token has option syntax but the error is %s: %s", t, clip(o.FErr.Message, 200))
			return
		}
		if opts&flags.HelpFlag == 0 && t == flags.ErrHelp && !appHelp {
			c.Violate("implication:help-without-helpflag", "ErrHelp although HelpFlag is not set")
			return
		}
		if len(d.Cmds) == 1 && (t == flags.ErrCommandRequired || t == flags.ErrUnknownCommand) {
			c.Violate("implication:command-error-without-commands", "%s although no command is declared", t)
			return
		}
		hasChoice, hasReq := false, false
		for _, op := range d.Opts {
			if len(op.Choices) > 0 {
				hasChoice = true
			}
			if op.Required {
				hasReq = true
			}
		}
		for _, cm := range d.Cmds {
			if cm.Pos != nil {
				hasReq = true
			}
		}
		if !hasChoice && t == flags.ErrInvalidChoice {
			c.Violate("implication:choice-error-without-choices", "ErrInvalidChoice although no option declares choices")
			return
		}
		if !hasReq && t == flags.ErrRequired {
			c.Violate("implication:required-error-without-required", "ErrRequired although nothing is required")
			return
		}
	}
	res := "ok"
	if o.FErr != nil {
		res = o.FErr.Type.String()
	}
	c.Held("hostile/"+optionsString(opts), fmt.Sprintf("%s n=%d %s", res, minInt(len(args), 12), special))
}

// c04SingleFault: the injected cause determines the documented error type.
func c04SingleFault(c *Ctx) {
	r := c.R
	// unknown-option .. bad-choice, then a failing callback and bad values arriving through the environment
	fault := append(append([]string{}, c09Faults[1:12]...), "callback-error", "bad-env-value", "bad-env-choice", "application-help", "bad-optional-value")[(c.K/4)%16]
	opts := []flags.Options{flags.HelpFlag, flags.HelpFlag | flags.PassDoubleDash, flags.Default, flags.HelpFlag | flags.PrintErrors, flags.PassDoubleDash, 0, flags.PrintErrors, flags.PrintErrors | flags.PassDoubleDash}[(c.K/64)%8]
	if c.W.Tier == "race" {
		opts &^= flags.PrintErrors
	}
	cfg := c09CfgFor(fault)
	if fault == "application-help" {
		cfg.PExec = 100
	}
	if (fault == "help" || fault == "help-in-cluster") && opts&flags.HelpFlag == 0 {
		opts |= flags.HelpFlag
	}
	cfg.ParserOpts = []flags.Options{opts}
	if fault != "application-help" {
		cfg.PExec = 50
	}
	cfg.Types = append(append([]TypeSpec{}, cfg.Types...), TypeSpec{K: KInt8}, TypeSpec{K: KUint16, W: WSlice}, TypeSpec{K: KCelsius}, TypeSpec{K: KInt, W: WPtr}, TypeSpec{K: KInt, W: WFunc1}, TypeSpec{K: KString, W: WFunc1Err}, TypeSpec{K: KString, W: WFunc1PErr})
	d := GenDecl(c.Sub("d"), cfg)
	var target *Cmd
	if len(d.Cmds) > 1 {
		target = d.Cmds[r.Intn(len(d.Cmds))]
	}
	sc := GenScenario(r, d, &ScenCfg{MaxItems: 8, POcc: 45, PCluster: 10, PPos: 15, PCmd: 22, PTerm: 8, PQuoted: 5, SkipReq: true, Target: target})
	if sc.Exp.Unspec != "" || sc.NeedsCommand() {
		c.Unspec("base vector incomplete")
		return
	}
	for _, cm := range sc.Exp.Chain {
		for _, o := range cm.OwnOpts() {
			if o.Required && !sc.SupplyOption(r, o, true) {
				c.Unspec("required option cannot be supplied in this context")
				return
			}
		}
	}
	sc.Redenote()
	if len(sc.UnmetPositionals()) > 0 || sc.Exp.Unspec != "" {
		c.Unspec("base vector leaves positional constraints unmet")
		return
	}
	var items []*Item
	var wantType flags.ErrorType
	pos, pi := 0, 0
	if fault == "application-help" {
		// the innermost command's Execute returns a *flags.Error of type ErrHelp: not a fault of the vector, but
		// the documented type and (with PrintErrors) the documented stream are the same as for the built-in help
		if !sc.Final.Exec || sc.Final.Parent == nil {
			c.Unspec("no executable command at the end of the vector")
			return
		}
		sc.Final.ExecHelp = true
		items, wantType = sc.Items, flags.ErrHelp
	} else {
		var ok bool
		items, wantType, pos, pi, _, ok = injectFault(c, r, d, sc, fault)
		if !ok {
			return
		}
	}
	args := RenderItems(d, items)
	b := d.Build()
	if b.Err != nil {
		c.Violate("setup-error", "generated declaration rejected: %v", b.Err)
		return
	}
	c.Case(func() interface{} {
		return map[string]interface{}{"declaration": d.Describe(), "argv": fmt.Sprintf("%q", args), "intent": describeItems(d, items), "fault": fault}
	})
	o := c04Observe(c, d, b, args)
	if c.Violated() {
		return
	}
	if o.FErr == nil || o.FErr.Type != wantType {
		c.Violate("single-fault:"+fault, "fault %s: got %s (%v), documented type is %s", fault, errTypeName(o.Err), o.Err, wantType)
		return
	}
	c.Held("single-fault/"+fault+"/"+optionsString(opts), fmt.Sprintf("pos=%d/%d depth=%d", pos, pi, sc.Final.Depth))
}

func init() {
	register(&Property{
		ID:    "C04",
		Title: "Parsing is total, contained and typed",
		Cases: func(tier string) int64 {
			switch tier {
			case "thorough":
				return 3000000 + 250000 // + history cases
			case "race":
				return 200000
			}
			return 64000 + 5333 // + history cases
		},
		Run:              c04Run,
		MinNontrivial:    500,
		DeathIsViolation: true,
		HangIsViolation:  true,
		RaceCases:        200000,
		Rule: "case k: 3 of 4 cases are hostile vectors (0-10 tokens, 1/60 with ~3000 tokens, 1/60 with a 64 kB token) over a dictionary of broken/odd tokens, random bytes, boundary numbers, and every declared short/long/command name in exact, mutated (case flip, truncation, insertion, deletion, byte substitution, namespace dropped), clustered and inline-argument forms, against a random declaration over the whole type pool (choices, optional arguments, required marks, bases, non-ASCII short names, 1% with choice tags on a no-argument option) under parser-option subset number (k/4 mod 32); every 4th case is a single injected fault of known kind. " +
			"For k mod 7 = 2 one to three options registered through the public AddOption API (parser, group, command, command group; 8 kinds, with/without Default and short name) are added to the live parser and tokens naming them in every shape join the vector. " +
			"Monitors on every call: recover() for panics (process death/hang via the parent's journal+watchdog), fd-level capture of stdout/stderr (zero bytes without PrintErrors; exactly err.Error()+newline once on the documented stream with it), every rejection is a *flags.Error of a documented type (never ErrUnknown or a raw error), sound implications (no option-shaped token => no option error, etc.), and for single faults the exact documented type. distinct = (mode, parser options, resulting type, vector length class).",
		Assumptions: []string{"positional fields are strings and no UnknownOptionHandler is installed in this check; commands return nil except for the application-help fault class (Execute returns a *flags.Error of type ErrHelp), so every other error must come from the parser itself", "programmer errors (nil callbacks, callbacks with >1 parameter, base outside 2..36, non-pointer data) are preconditions"},
		Technique:   "runtime safety monitors (panic/death/hang journal, fd-level stdout/stderr capture via dup2, typed-error check) over hostile generated workloads; Go race detector on a concurrent re-run in the thorough tier; metamorphic history monitor ([use, change of the public model, use] on one parser vs. a fresh parser of the changed declaration)",
		LevelText:   "Exploration with safety monitors: totality and containment are universal negatives, so the reach comes from hostile input volume (6x10^4 quick, 3x10^6 thorough, all 32 parser-option subsets) and the evidence reports what the monitors saw (bytes on fd 1/2, error types, panics). The thorough tier re-runs 2x10^5 cases on 16 goroutines under -race to expose any package-level shared state.",
		LevelNote:   "Trusted: dup2-based capture sees every write to fd 1/2 by this process; the journal names the culprit of a process death.",
		DesignRef:   "§4 C04",
	})
}
