package main

import (
	"fmt"
	"reflect"
	"strconv"
	"strings"

	flags "github.com/jessevdk/go-flags"
)

// ---------------------------------------------------------------------------
// Intent items: a command line is generated as what it is supposed to denote, then rendered.
// ---------------------------------------------------------------------------

type Spelling int

const (
	SpShortAttached Spelling = iota // -xV
	SpShortEq                       // -x=V
	SpShortSep                      // -x V
	SpLongEq                        // --name=V
	SpLongSep                       // --name V
	numSpellings
)

var spellNames = [...]string{"-xV", "-x=V", "-x V", "--name=V", "--name V"}

func (s Spelling) String() string { return spellNames[s] }
func (s Spelling) IsShort() bool  { return s <= SpShortSep }
func (s Spelling) IsSep() bool    { return s == SpShortSep || s == SpLongSep }

type ItemKind int

const (
	IOcc      ItemKind = iota // one occurrence of an argument-taking option with a value
	IFlag                     // one occurrence of a no-argument option (short or long form)
	ICluster                  // -abc (all flags), optionally ending in an argument-taking option with separate value
	IOptNoArg                 // optional-argument option given without argument
	IPos                      // plain token that binds a positional or becomes a remaining argument
	ICmd                      // command word
	ITerm                     // the -- terminator
	IRaw                      // verbatim token after the terminator / after the first non-option under PassAfterNonOption
	IFault                    // injected fault (rendered tokens given literally)
)

type Item struct {
	Kind   ItemKind
	Opt    *Opt
	Text   string // argument text as it reaches the option after unquoting (the denoted text)
	Sp     Spelling
	Quoted bool   // argument written as a Go string literal
	Flags  []*Opt // ICluster
	// OptNoArg: the cluster ends in an optional-argument option that is given no argument (it takes its optional
	// value; the next token is not consumed)
	OptNoArg bool
	Long     bool // IFlag / IOptNoArg: long form
	Cmd      *Cmd
	Via      string // ICmd: the word used (name or alias)
	Tok      string // IPos / IRaw
	Toks     []string
	Note     string
}

func (it *Item) argText() string {
	if it.Quoted {
		return strconv.Quote(it.Text)
	}
	return it.Text
}

// Render turns items into tokens.
func RenderItems(d *Decl, items []*Item) []string {
	var out []string
	for _, it := range items {
		out = append(out, renderItem(d, it)...)
	}
	return out
}

func renderItem(d *Decl, it *Item) []string {
	switch it.Kind {
	case IOcc:
		return renderOcc(d, it.Opt, it.argText(), it.Sp)
	case IFlag, IOptNoArg:
		if it.Long {
			return []string{"--" + d.FullLong(it.Opt)}
		}
		return []string{"-" + string(it.Opt.Short)}
	case ICluster:
		s := "-"
		for _, f := range it.Flags {
			s += string(f.Short)
		}
		if it.Opt != nil && it.OptNoArg {
			return []string{s + string(it.Opt.Short)}
		}
		if it.Opt != nil {
			return []string{s + string(it.Opt.Short), it.argText()}
		}
		return []string{s}
	case IPos, IRaw:
		return []string{it.Tok}
	case ICmd:
		return []string{it.Via}
	case ITerm:
		return []string{"--"}
	case IFault:
		return it.Toks
	}
	return nil
}

func renderOcc(d *Decl, o *Opt, arg string, sp Spelling) []string {
	switch sp {
	case SpShortAttached:
		return []string{"-" + string(o.Short) + arg}
	case SpShortEq:
		return []string{"-" + string(o.Short) + "=" + arg}
	case SpShortSep:
		return []string{"-" + string(o.Short), arg}
	case SpLongEq:
		return []string{"--" + d.FullLong(o) + "=" + arg}
	case SpLongSep:
		return []string{"--" + d.FullLong(o), arg}
	}
	return nil
}

// optionShaped mirrors the documented option syntax: -c… (c != '-') or --c… (c != '-').
func optionShaped(s string) bool {
	if len(s) > 1 && s[0] == '-' && s[1] != '-' {
		return true
	}
	if len(s) > 2 && s[0] == '-' && s[1] == '-' && s[2] != '-' {
		return true
	}
	return false
}

// SepAdmissible: may argument text `arg` (as written) be given as a separate token to option o?
// Returns (admissible, specified). specified=false marks the judgement calls routed to "unspecified".
func SepAdmissible(d *Decl, o *Opt, arg string) (ok bool, specified bool) {
	if o.Optional {
		return false, true
	}
	if o.T.K == KPicky && !o.T.IsFunc() && o.T.W != WMap {
		// a ValueValidator type decides itself; the statement does not rank this
		if strings.HasPrefix(arg, "!") || optionShaped(arg) {
			return false, false
		}
	}
	if d.Options&flags.PassDoubleDash != 0 && arg == "--" {
		return false, true
	}
	if optionShaped(arg) {
		if o.T.IsSignedNumeric() && len(arg) > 1 && arg[0] == '-' {
			if arg[1] >= '0' && arg[1] <= '9' {
				return true, true
			}
			return false, false // -.5 / -Inf: narrow reading, unspecified
		}
		return false, true
	}
	return true, true
}

// Admissible spellings for an occurrence (value text as written = arg).
func AdmissibleSpellings(d *Decl, sc *Scope, o *Opt, arg string) []Spelling {
	var r []Spelling
	shortOK := o.Short != 0 && sc.Short[o.Short] == o
	longOK := o.Long != "" && sc.Long[d.FullLong(o)] == o
	sep, _ := SepAdmissible(d, o, arg)
	if shortOK {
		if arg != "" && arg[0] != '=' {
			r = append(r, SpShortAttached)
		}
		r = append(r, SpShortEq)
		if sep {
			r = append(r, SpShortSep)
		}
	}
	if longOK {
		r = append(r, SpLongEq)
		if sep {
			r = append(r, SpLongSep)
		}
	}
	return r
}

// ---------------------------------------------------------------------------
// Scope: which option a name denotes in a command context (innermost declaration wins)
// ---------------------------------------------------------------------------

type Scope struct {
	Short map[rune]*Opt
	Long  map[string]*Opt
	Cmds  map[string]*Cmd
}

func (d *Decl) ScopeOf(c *Cmd) *Scope {
	s := &Scope{Short: map[rune]*Opt{}, Long: map[string]*Opt{}, Cmds: map[string]*Cmd{}}
	for _, x := range c.Chain() {
		for _, o := range x.OwnOpts() {
			if o.Short != 0 {
				s.Short[o.Short] = o
			}
			if o.Long != "" {
				s.Long[d.FullLong(o)] = o
			}
		}
	}
	for _, sc := range c.Subs {
		s.Cmds[sc.Name] = sc
		for _, a := range sc.Aliases {
			s.Cmds[a] = sc
		}
	}
	return s
}

func (s *Scope) Addressable(d *Decl) []*Opt {
	seen := map[*Opt]bool{}
	var r []*Opt
	// deterministic order: by ID
	for _, o := range d.Opts {
		if (o.Short != 0 && s.Short[o.Short] == o) || (o.Long != "" && s.Long[d.FullLong(o)] == o) {
			if !seen[o] {
				seen[o] = true
				r = append(r, o)
			}
		}
	}
	return r
}

// ---------------------------------------------------------------------------
// Expected outcome (denotation)
// ---------------------------------------------------------------------------

type Expect struct {
	D        *Decl
	Shadow   map[*Opt]reflect.Value // expected value of options that occurred
	Seen     map[*Opt]int
	Calls    []CallEntry // expected callback log
	PosVals  map[*PosArg][]string
	Rest     []string
	Chain    []*Cmd
	ErrType  flags.ErrorType
	WantErr  bool
	ErrNames []string // names that the error message must mention (back-quoted items)
	Unspec   string
	// ValueUnspec: options whose final value the statement does not pin for this vector
	ValueUnspec map[*Opt]bool
}

func newExpect(d *Decl) *Expect {
	return &Expect{D: d, Shadow: map[*Opt]reflect.Value{}, Seen: map[*Opt]int{}, PosVals: map[*PosArg][]string{}, Chain: []*Cmd{d.Root}}
}

// occur applies one occurrence of o with denoted text txt (nil = no argument).
func (e *Expect) occur(o *Opt, txt *string) {
	t := o.T
	if t.IsFunc() {
		var as []string
		if txt != nil {
			r := RefScalar(t.K, o.Base, *txt)
			if r.HasVal {
				as = []string{Canon(r.Val)}
			} else {
				as = []string{"<no reference value>"}
			}
		}
		e.Calls = append(e.Calls, CallEntry{"callback", o.ID, as})
		e.Seen[o]++
		return
	}
	sh, ok := e.Shadow[o]
	if !ok {
		sh = reflect.New(t.GoType()).Elem()
		// explicitly given values replace whatever was there (slices/maps start empty, scalars are overwritten)
		e.Shadow[o] = sh
	}
	e.Seen[o]++
	if txt == nil {
		// flag
		switch t.W {
		case WScalar:
			sh.SetBool(true)
		case WPtr:
			b := true
			sh.Set(reflect.ValueOf(&b))
		case WSlice:
			sh.Set(reflect.Append(sh, reflect.ValueOf(true)))
		case WSlicePtr:
			b := true
			sh.Set(reflect.Append(sh, reflect.ValueOf(&b)))
		}
		return
	}
	if !applyRef(sh, t, o.Base, *txt) {
		e.Unspec = "value without reference reading: " + *txt
	}
}

// occurMember: one letter of a short cluster - a flag, or an optional-argument option without argument.
func (e *Expect) occurMember(f *Opt) {
	if f.T.IsFlag() {
		e.occur(f, nil)
	} else {
		e.occurOptional(f)
	}
}

// occurOptional: an optional-argument option given without argument stores its optional value(s).
func (e *Expect) occurOptional(o *Opt) {
	if len(o.OptionalValues) == 0 {
		// no optional-value declared: what the bare option stores is not stated (the unchanged library treats it
		// as "not given": defaults apply afterwards) - only its value is left unjudged, the rest of the vector is
		if e.ValueUnspec == nil {
			e.ValueUnspec = map[*Opt]bool{}
		}
		e.ValueUnspec[o] = true
	}
	sh, ok := e.Shadow[o]
	if !ok {
		sh = reflect.New(o.T.GoType()).Elem()
		e.Shadow[o] = sh
	}
	sh.Set(reflect.Zero(sh.Type()))
	e.Seen[o]++
	for _, v := range o.OptionalValues {
		if !applyRef(sh, o.T, o.Base, v) {
			e.Unspec = "optional value without reference reading"
		}
	}
}

// FinalValue gives the expected canonical value of option o after a successful parse, env excluded
// (env handling is C05's own oracle).
func (e *Expect) FinalValue(o *Opt) (string, bool) {
	if o.T.IsFunc() {
		return "func", true
	}
	if sh, ok := e.Shadow[o]; ok {
		return Canon(sh), true
	}
	v := reflect.New(o.T.GoType()).Elem()
	src := o.Initial
	if len(o.Defaults) > 0 {
		src = o.Defaults
	}
	if o.EnvSet != nil {
		// the environment outranks default tags and pre-stored content
		src = []string{*o.EnvSet}
		if o.EnvDelim != "" {
			src = strings.Split(*o.EnvSet, o.EnvDelim)
		}
	}
	for _, txt := range src {
		if !applyRef(v, o.T, o.Base, txt) {
			return "", false
		}
	}
	return Canon(v), true
}

// ---------------------------------------------------------------------------
// Scenario generation: a walker that only emits items valid in the current context
// ---------------------------------------------------------------------------

type ScenCfg struct {
	MaxItems      int
	PCluster      int
	PPos          int
	PCmd          int
	PTerm         int
	POcc          int
	PQuoted       int
	HostileRaw    bool // raw tokens after the terminator include option-shaped / odd tokens
	NoRest        bool // do not emit plain tokens that would become remaining arguments
	MaxOccPer     int
	PosTextFn     func(r *Rand, a *PosArg) string
	PSiblingWord  int  // % of plain tokens that equal the name of a command which is NOT a sub-command of the current one
	PCmdWordAsPos int  // % of positional tokens that equal a sub-command name of the current command
	SkipReq       bool // never mention required options spontaneously (the caller supplies a chosen subset)
	PUnknown      int  // % of steps that emit an unknown option token (only under IgnoreUnknown: passed through)
	Focus         *Opt // an option the scenario should mention FocusN times
	FocusN        int
	Target        *Cmd // the command the scenario should end in (nil = random walk)
}

type Scenario struct {
	D        *Decl
	Items    []*Item
	Exp      *Expect
	Final    *Cmd
	Unknowns int
}

type walker struct {
	d        *Decl
	r        *Rand
	cfg      *ScenCfg
	cur      *Cmd
	scope    *Scope
	pending  []*PosArg
	rest     bool // remaining arguments already non-empty
	passed   bool // everything from here on is passed through verbatim (terminator / PassAfterNonOption)
	exp      *Expect
	items    []*Item
	occCnt   map[*Opt]int
	force    bool
	unknowns int
}

func (w *walker) enter(c *Cmd) {
	w.cur = c
	w.scope = w.d.ScopeOf(c)
	w.pending = nil
	if c.Pos != nil {
		w.pending = append(w.pending, c.Pos.Args...)
	}
}

// bindPlain accounts for a verbatim token: first unfilled positionals, then remaining arguments.
func (w *walker) bindPlain(tok string) {
	if len(w.pending) > 0 {
		a := w.pending[0]
		w.exp.PosVals[a] = append(w.exp.PosVals[a], tok)
		if !a.IsRest() {
			w.pending = w.pending[1:]
		}
		return
	}
	w.exp.Rest = append(w.exp.Rest, tok)
	w.rest = true
}

var plainTokens = []string{"file", "x", "-", "a b", "é世", "0", "=", "k:v", "plain", "---x", "", "--- y", "--", "help", "help", "version", "h"}

func (w *walker) plainToken() string {
	r := w.r
	if w.cfg.PSiblingWord > 0 && len(w.d.Cmds) > 1 && r.Chance(w.cfg.PSiblingWord, 100) {
		// the current command's own name, a sibling's or an ancestor's: ordinary words in this context
		cm := w.d.Cmds[1+r.Intn(len(w.d.Cmds)-1)]
		tok := cm.Name
		if len(cm.Aliases) > 0 && r.Bool() {
			tok = cm.Aliases[r.Intn(len(cm.Aliases))]
		}
		if w.scope.Cmds[tok] == nil {
			return tok
		}
	}
	if r.Chance(2, 3) {
		return fmt.Sprintf("t%d", r.Intn(1000))
	}
	return plainTokens[r.Intn(len(plainTokens))]
}

var rawTokens = []string{"-x", "--long", "--long=v", "-", "--", "---", "", "-=", "--=", "-abc", "plain", "-9", "--é", "\"q\"", "a=b"}

func (w *walker) posText(a *PosArg) string {
	if w.cfg.PosTextFn != nil {
		return w.cfg.PosTextFn(w.r, a)
	}
	if a.T.W == WMap {
		return fmt.Sprintf("k%d:%s", w.r.Intn(4), GenScalarText(w.r, a.T.K, a.Base, 0))
	}
	if a.T.K == KString {
		return w.plainToken()
	}
	return GenScalarText(w.r, a.T.K, a.Base, 0)
}

func (w *walker) addOcc(o *Opt) {
	r, d := w.r, w.d
	if o.T.IsFlag() {
		it := &Item{Kind: IFlag, Opt: o}
		shortOK := o.Short != 0 && w.scope.Short[o.Short] == o
		longOK := o.Long != "" && w.scope.Long[d.FullLong(o)] == o
		it.Long = longOK && (!shortOK || r.Bool())
		w.items = append(w.items, it)
		w.exp.occur(o, nil)
		return
	}
	if o.Optional && r.Chance(1, 3) {
		shortOK := o.Short != 0 && w.scope.Short[o.Short] == o
		longOK := o.Long != "" && w.scope.Long[d.FullLong(o)] == o
		it := &Item{Kind: IOptNoArg, Opt: o, Long: longOK && (!shortOK || r.Bool())}
		w.items = append(w.items, it)
		w.exp.occurOptional(o)
		return
	}
	txt := GenValueText(r, o)
	it := &Item{Kind: IOcc, Opt: o, Text: txt}
	if !o.NoUnquote && r.Chance(w.cfg.PQuoted, 100) {
		it.Quoted = true
	} else if !o.NoUnquote && strings.HasPrefix(txt, "\"") {
		it.Quoted = true // a text that starts with a quote can only be denoted through a literal
	}
	sps := AdmissibleSpellings(d, w.scope, o, it.argText())
	if len(sps) == 0 {
		return
	}
	it.Sp = sps[r.Intn(len(sps))]
	w.items = append(w.items, it)
	w.exp.occur(o, &txt)
}

func (w *walker) addCluster() bool {
	r := w.r
	var fl []*Opt
	var argers, optionals []*Opt
	for _, o := range w.scope.Addressable(w.d) {
		if o.Short == 0 || w.scope.Short[o.Short] != o {
			continue
		}
		if w.cfg.SkipReq && o.Required {
			continue
		}
		if o.T.IsFlag() {
			fl = append(fl, o)
		} else if !o.Optional {
			argers = append(argers, o)
		} else {
			optionals = append(optionals, o)
		}
	}
	if len(fl) == 0 {
		return false
	}
	n := r.Range(1, 4)
	it := &Item{Kind: ICluster}
	for i := 0; i < n; i++ {
		f := fl[r.Intn(len(fl))]
		if i > 0 && len(optionals) > 0 && r.Chance(1, 5) {
			// an optional-argument option in the middle of a cluster takes its optional value; the letters after
			// it are still options (only the first letter of a cluster can take the rest as its argument)
			f = optionals[r.Intn(len(optionals))]
		}
		it.Flags = append(it.Flags, f)
	}
	if len(argers) > 0 && r.Chance(1, 3) {
		o := argers[r.Intn(len(argers))]
		txt := GenValueText(r, o)
		q := !o.NoUnquote && (strings.HasPrefix(txt, "\"") || r.Chance(w.cfg.PQuoted, 100))
		arg := txt
		if q {
			arg = strconv.Quote(txt)
		}
		if ok, _ := SepAdmissible(w.d, o, arg); ok {
			it.Opt, it.Text, it.Quoted = o, txt, q
		}
	}
	if it.Opt == nil && len(optionals) > 0 && r.Chance(1, 3) {
		it.Opt, it.OptNoArg = optionals[r.Intn(len(optionals))], true
	}
	if len(it.Flags) == 1 && it.Opt == nil {
		return false
	}
	w.items = append(w.items, it)
	for _, f := range it.Flags {
		w.exp.occurMember(f)
	}
	if it.Opt != nil && it.OptNoArg {
		w.exp.occurOptional(it.Opt)
	} else if it.Opt != nil {
		w.exp.occur(it.Opt, &it.Text)
	}
	return true
}

// GenScenario produces a valid argument vector (as intent items) and its denotation.
func GenScenario(r *Rand, d *Decl, cfg *ScenCfg) *Scenario {
	w := &walker{d: d, r: r, cfg: cfg, exp: newExpect(d), occCnt: map[*Opt]int{}}
	w.enter(d.Root)
	pdd := d.Options&flags.PassDoubleDash != 0
	pano := d.Options&flags.PassAfterNonOption != 0
	n := r.Range(0, cfg.MaxItems)
	for step := 0; step < n; step++ {
		if w.passed {
			tok := w.plainToken()
			if cfg.HostileRaw && r.Bool() {
				tok = rawTokens[r.Intn(len(rawTokens))]
			}
			if cfg.HostileRaw && len(w.d.Cmds) > 1 && r.Chance(1, 6) {
				// a word that names a command is an ordinary argument once everything is passed through
				cm := w.d.Cmds[1+r.Intn(len(w.d.Cmds)-1)]
				tok = cm.Name
				if len(w.cur.Subs) > 0 && r.Bool() {
					tok = w.cur.Subs[r.Intn(len(w.cur.Subs))].Name
				}
			}
			if len(w.pending) > 0 && w.pending[0].T.K != KString {
				tok = w.posText(w.pending[0]) // typed positional: the verbatim token must be convertible
			}
			w.items = append(w.items, &Item{Kind: IRaw, Tok: tok})
			w.bindPlain(tok)
			continue
		}
		if cfg.PUnknown > 0 && d.Options&flags.IgnoreUnknown != 0 && r.Chance(cfg.PUnknown, 100) {
			if len(w.pending) > 0 && w.pending[0].T.K != KString {
				continue // it would be converted into a typed positional
			}
			if len(w.cur.Subs) > 0 && !w.cur.SubOptional && len(w.pending) == 0 {
				continue // it would start the remaining arguments and so block the command word still due
			}
			tok := UnknownToken(r, d, w.scope)
			w.items = append(w.items, &Item{Kind: IFault, Toks: []string{tok}, Note: "unknown option passed through"})
			w.bindPlain(tok)
			w.unknowns++
			continue
		}
		x := r.Intn(100)
		needCmd := len(w.cur.Subs) > 0 && !w.cur.SubOptional
		if needCmd && r.Chance(9, 10) {
			// do not close the vector (terminator / pass-after-non-option) while a sub-command is still due
			if x >= cfg.POcc+cfg.PCluster+cfg.PPos+cfg.PCmd {
				x = cfg.POcc + cfg.PCluster + cfg.PPos
			}
			if pano && x >= cfg.POcc+cfg.PCluster && x < cfg.POcc+cfg.PCluster+cfg.PPos {
				x = cfg.POcc + cfg.PCluster + cfg.PPos
			}
		}
		switch {
		case x < cfg.POcc:
			opts := w.scope.Addressable(d)
			if len(opts) == 0 {
				continue
			}
			o := opts[r.Intn(len(opts))]
			if cfg.SkipReq && o.Required {
				continue
			}
			if f := cfg.Focus; f != nil && w.occCnt[f] < cfg.FocusN && r.Bool() {
				for _, x := range opts {
					if x == f {
						o = f
					}
				}
			}
			if cfg.MaxOccPer > 0 && w.occCnt[o] >= cfg.MaxOccPer {
				continue
			}
			w.occCnt[o]++
			w.addOcc(o)
		case x < cfg.POcc+cfg.PCluster:
			w.addCluster()
		case x < cfg.POcc+cfg.PCluster+cfg.PPos:
			// a plain token: positional, or remaining argument where the context allows one
			if len(w.pending) > 0 {
				a := w.pending[0]
				tok := w.posText(a)
				cmdWord := false
				if cfg.PCmdWordAsPos > 0 && a.T.K == KString && len(w.cur.Subs) > 0 && r.Chance(cfg.PCmdWordAsPos, 100) {
					// a token that happens to equal a sub-command name or alias: positionals are filled first
					sc := w.cur.Subs[r.Intn(len(w.cur.Subs))]
					tok = sc.Name
					if len(sc.Aliases) > 0 && r.Bool() {
						tok = sc.Aliases[r.Intn(len(sc.Aliases))]
					}
					cmdWord = true
				}
				if optionShaped(tok) || (pdd && tok == "--") || (!cmdWord && w.scope.Cmds[tok] != nil) {
					continue
				}
				w.items = append(w.items, &Item{Kind: IPos, Tok: tok})
				w.bindPlain(tok)
				if pano && !cmdWord {
					w.passed = true // (a command word is exempt from PassAfterNonOption's early exit)
				}
				continue
			}
			if cfg.NoRest {
				continue
			}
			if len(w.cur.Subs) > 0 && !w.rest && !w.cur.SubOptional {
				continue // would be read as a command word
			}
			tok := w.plainToken()
			if optionShaped(tok) || (pdd && tok == "--") || w.scope.Cmds[tok] != nil {
				continue
			}
			w.items = append(w.items, &Item{Kind: IPos, Tok: tok})
			w.bindPlain(tok)
			if pano {
				w.passed = true
			}
		case x < cfg.POcc+cfg.PCluster+cfg.PPos+cfg.PCmd:
			w.tryCmd()
		default:
			if pdd && r.Chance(cfg.PTerm, 100) {
				w.items = append(w.items, &Item{Kind: ITerm})
				w.passed = true
			}
		}
	}
	// drive towards the target command and give the focus option its occurrences
	if t := cfg.Target; t != nil && !w.passed {
		for guard := 0; guard < 8 && w.cur != t; guard++ {
			onPath := false
			for _, x := range t.Chain() {
				if x.Parent == w.cur {
					onPath = true
				}
			}
			if !onPath {
				break
			}
			for len(w.pending) > 0 && !w.pending[0].IsRest() && !w.passed {
				w.fillPending(pdd, pano)
			}
			if w.passed || !w.tryCmd() {
				break
			}
		}
	}
	if f := cfg.Focus; f != nil && !w.passed {
		for guard := 0; guard < 6 && w.occCnt[f] < cfg.FocusN; guard++ {
			ok := false
			for _, x := range w.scope.Addressable(d) {
				if x == f {
					ok = true
				}
			}
			if !ok {
				break
			}
			w.occCnt[f]++
			w.addOcc(f)
		}
	}
	// reach a context in which the command line is complete
	w.force = true
	for guard := 0; guard < 8 && !w.passed && len(w.cur.Subs) > 0 && !w.cur.SubOptional; guard++ {
		// fill pending non-rest positionals so that a command word can follow
		for len(w.pending) > 0 && !w.pending[0].IsRest() && !w.passed {
			w.fillPending(pdd, pano)
		}
		if w.passed || !w.tryCmd() {
			break
		}
	}
	w.exp.Chain = w.cur.Chain()
	return &Scenario{D: d, Items: w.items, Exp: w.exp, Final: w.cur, Unknowns: w.unknowns}
}

// fillPending emits one plain token for the first pending positional.
func (w *walker) fillPending(pdd, pano bool) {
	a := w.pending[0]
	tok := w.posText(a)
	if optionShaped(tok) || (pdd && tok == "--") || w.scope.Cmds[tok] != nil {
		tok = "t1"
		if a.T.K != KString || a.T.W == WMap {
			for i := 0; i < 50; i++ {
				tok = GenScalarText(w.r, a.T.K, a.Base, 0)
				if a.T.W == WMap {
					tok = "k9:" + tok
				}
				if !optionShaped(tok) {
					break
				}
			}
		}
	}
	w.items = append(w.items, &Item{Kind: IPos, Tok: tok})
	w.bindPlain(tok)
	if pano {
		w.passed = true
	}
}

func (w *walker) tryCmd() bool {
	if len(w.cur.Subs) == 0 || len(w.pending) > 0 || w.rest {
		return false
	}
	sc := w.cur.Subs[w.r.Intn(len(w.cur.Subs))]
	if t := w.cfg.Target; t != nil {
		onPath := false
		for _, x := range t.Chain() {
			if x.Parent == w.cur {
				sc = x
				onPath = true
			}
		}
		if w.force {
		} else if !onPath && t != w.cur {
			return false
		}
		if !w.force && !onPath && t == w.cur && w.r.Chance(3, 4) {
			return false // stay in the target command most of the time
		}
	}
	via := sc.Name
	if len(sc.Aliases) > 0 && w.r.Bool() {
		via = sc.Aliases[w.r.Intn(len(sc.Aliases))]
	}
	w.items = append(w.items, &Item{Kind: ICmd, Cmd: sc, Via: via})
	w.enter(sc)
	return true
}

// ---------------------------------------------------------------------------
// Completion of the expectation after generation: required items, command requirement
// ---------------------------------------------------------------------------

// MissingRequired lists required options of the active chain that did not occur (and have no default).
func (s *Scenario) MissingRequired() []*Opt {
	var miss []*Opt
	for _, c := range s.Exp.Chain {
		for _, o := range c.OwnOpts() {
			if o.Required && s.Exp.Seen[o] == 0 && len(o.Defaults) == 0 && o.EnvSet == nil {
				miss = append(miss, o)
			}
		}
	}
	return miss
}

// UnmetPositionals returns the back-quoted items the ErrRequired message must name for positional
// constraints of the innermost active command (only that command's positionals are live at the end).
func (s *Scenario) UnmetPositionals() []string {
	c := s.Final
	if c.Pos == nil {
		return nil
	}
	var names []string
	for _, a := range c.Pos.Args {
		got := len(s.Exp.PosVals[a])
		if a.IsRest() {
			lo, hi := parseReq(a.Req)
			if a.Req == "" {
				continue
			}
			if got < lo {
				names = append(names, a.DisplayName())
			} else if hi >= 0 && got > hi {
				names = append(names, a.DisplayName())
			}
			continue
		}
		if got > 0 {
			continue
		}
		if c.Pos.Required || a.Req != "" {
			names = append(names, a.DisplayName())
		}
	}
	return names
}

// parseReq reads the required tag of a positional: "" / yes -> (1,-1); "N" -> (N,-1); "N-M" -> (N,M).
func parseReq(s string) (int, int) {
	if s == "" {
		return 0, -1
	}
	if i := strings.IndexByte(s, '-'); i >= 0 {
		lo, e1 := strconv.Atoi(s[:i])
		hi, e2 := strconv.Atoi(s[i+1:])
		if e1 != nil {
			lo = 1
		}
		if e2 != nil {
			hi = -1
		}
		return lo, hi
	}
	if n, err := strconv.Atoi(s); err == nil {
		return n, -1
	}
	return 1, -1
}

// NeedsCommand: the final context still requires a sub-command.
func (s *Scenario) NeedsCommand() bool {
	return len(s.Final.Subs) > 0 && !s.Final.SubOptional
}

func (s *Scenario) Args() []string { return RenderItems(s.D, s.Items) }

func describeItems(d *Decl, items []*Item) []string {
	var out []string
	for _, it := range items {
		toks := renderItem(d, it)
		var k string
		switch it.Kind {
		case IOcc:
			k = fmt.Sprintf("occ(%s %s=%q)", it.Opt.Field, it.Sp, it.Text)
		case IFlag:
			k = "flag(" + it.Opt.Field + ")"
		case ICluster:
			k = "cluster"
		case IOptNoArg:
			k = "optional-without-arg(" + it.Opt.Field + ")"
		case IPos:
			k = "plain"
		case ICmd:
			k = "cmd(" + it.Cmd.Name + ")"
		case ITerm:
			k = "terminator"
		case IRaw:
			k = "raw"
		case IFault:
			k = "FAULT(" + it.Note + ")"
		}
		out = append(out, fmt.Sprintf("%s %q", k, toks))
	}
	return out
}

// UnknownToken builds an option-shaped token whose name is not defined in scope sc: near misses of
// declared names (case flip, prefix, one character appended/deleted/substituted, namespace dropped) or fresh names.
func UnknownToken(r *Rand, d *Decl, sc *Scope) string {
	for try := 0; try < 30; try++ {
		var name string
		long := r.Chance(2, 3)
		if long {
			var names []string
			for n := range sc.Long {
				names = append(names, n)
			}
			sortStrings(names)
			if len(names) > 0 && r.Chance(3, 4) {
				base := names[r.Intn(len(names))]
				switch r.Intn(6) {
				case 0:
					name = flipCase(base)
				case 1:
					if len(base) > 1 {
						name = base[:len(base)-1]
					}
				case 2:
					name = base + "x"
				case 3:
					name = "x" + base
				case 4:
					if i := strings.LastIndex(base, d.nsDelim()); i >= 0 {
						name = base[i+len(d.nsDelim()):]
					} else {
						name = "ns" + d.nsDelim() + base
					}
				default:
					bs := []byte(base)
					bs[r.Intn(len(bs))] = 'q'
					name = string(bs)
				}
			} else if r.Chance(1, 8) {
				// the empty long name: "--=value" and "--=" name no option at all (also not one that merely has no
				// long name)
				return r.Pick([]string{"--=", "--=v7", "--=with space"})
			} else if r.Chance(1, 3) {
				// names with characters that are special to formatted printing or to the message syntax
				name = r.Pick([]string{"rate%d", "100%", "%s", "a%v%!b", "zz%", "sp ace", "tab\there", "%%"})
			} else {
				name = fmt.Sprintf("zz%d", r.Intn(1000))
			}
			if name == "" || name[0] == '-' || strings.ContainsAny(name, "=") || sc.Long[name] != nil {
				continue
			}
			if d.Options&flags.HelpFlag != 0 && name == "help" {
				continue
			}
			switch r.Intn(3) {
			case 0:
				return "--" + name
			case 1:
				return "--" + name + "=" + fmt.Sprintf("v%d", r.Intn(100))
			default:
				return "--" + name + "="
			}
		}
		pool := []rune("abcdefgijklmnopqrstuvwxyzABCDEFGHIJKLMNOPQRSTUVWXYZ0123456789éλ世\x00\x00\x00\ufffd") // (NUL is "no short name" inside the library)
		ru := pool[r.Intn(len(pool))]
		if sc.Short[ru] != nil || (d.Options&flags.HelpFlag != 0 && ru == 'h') {
			continue
		}
		switch r.Intn(3) {
		case 0:
			return "-" + string(ru)
		case 1:
			return "-" + string(ru) + "=" + fmt.Sprintf("v%d", r.Intn(100))
		default:
			return "-" + string(ru) + fmt.Sprintf("val%d", r.Intn(100))
		}
	}
	return "--zz-unknown"
}

func flipCase(s string) string {
	bs := []byte(s)
	changed := false
	for i, b := range bs {
		if b >= 'a' && b <= 'z' {
			bs[i] = b - 32
			changed = true
		} else if b >= 'A' && b <= 'Z' {
			bs[i] = b + 32
			changed = true
		}
	}
	if !changed {
		return ""
	}
	return string(bs)
}

// ---------------------------------------------------------------------------
// Denote: the expected outcome of an item list, computed from the declaration model only
// (used after items have been edited: faults inserted, occurrences moved or added).
// ---------------------------------------------------------------------------

type Denotation struct {
	Exp      *Expect
	Final    *Cmd
	Passed   bool
	Unknowns int
	Broken   string // the item list leaves the domain of the denotation (e.g. a command word after a remaining argument)
}

func Denote(d *Decl, items []*Item) *Denotation {
	w := &walker{d: d, exp: newExpect(d), occCnt: map[*Opt]int{}}
	w.enter(d.Root)
	pano := d.Options&flags.PassAfterNonOption != 0
	for _, it := range items {
		switch it.Kind {
		case IOcc:
			t := it.Text
			w.exp.occur(it.Opt, &t)
		case IFlag:
			w.exp.occur(it.Opt, nil)
		case IOptNoArg:
			w.exp.occurOptional(it.Opt)
		case ICluster:
			for _, f := range it.Flags {
				w.exp.occurMember(f)
			}
			if it.Opt != nil && it.OptNoArg {
				w.exp.occurOptional(it.Opt)
			} else if it.Opt != nil {
				t := it.Text
				w.exp.occur(it.Opt, &t)
			}
		case IPos:
			isCmdWord := w.scope.Cmds[it.Tok] != nil
			w.bindPlain(it.Tok)
			if pano && !isCmdWord {
				w.passed = true
			}
		case IRaw:
			w.bindPlain(it.Tok)
		case ITerm:
			w.passed = true
		case ICmd:
			if w.rest || len(w.pending) > 0 || w.passed {
				w.exp.Chain = w.cur.Chain()
				return &Denotation{Exp: w.exp, Final: w.cur, Passed: w.passed, Unknowns: w.unknowns, Broken: "command word after a remaining argument or pending positional"}
			}
			w.enter(it.Cmd)
		case IFault:
			// only pass-through faults take part in a denotation
			for _, t := range it.Toks {
				w.bindPlain(t)
			}
			w.unknowns++
		}
	}
	w.exp.Chain = w.cur.Chain()
	return &Denotation{Exp: w.exp, Final: w.cur, Passed: w.passed, Unknowns: w.unknowns}
}

// Redenote replaces the scenario's expectation by the denotation of its (edited) items.
func (s *Scenario) Redenote() {
	dn := Denote(s.D, s.Items)
	s.Exp, s.Final, s.Unknowns = dn.Exp, dn.Final, dn.Unknowns
}

// passIndex returns the index of the first item from which everything is passed through verbatim.
func passIndex(d *Decl, items []*Item) int {
	pano := d.Options&flags.PassAfterNonOption != 0
	for i, it := range items {
		if it.Kind == ITerm || it.Kind == IRaw {
			return i
		}
		if it.Kind == IPos && pano {
			return i
		}
	}
	return len(items)
}

// cmdIndex returns the index just after the command word that activates cm (0 for the root), or -1.
func cmdIndex(items []*Item, cm *Cmd) int {
	if cm.Parent == nil {
		return 0
	}
	for i, it := range items {
		if it.Kind == ICmd && it.Cmd == cm {
			return i + 1
		}
	}
	return -1
}

// SupplyOption inserts one occurrence of option o (declared by a command of the active chain) directly
// after the command word that brings it into scope, in a random admissible spelling.
func (s *Scenario) SupplyOption(r *Rand, o *Opt, allowCluster bool) bool {
	at := cmdIndex(s.Items, o.Cmd)
	if at < 0 || at > passIndex(s.D, s.Items) {
		return false
	}
	scope := s.D.ScopeOf(o.Cmd)
	var it *Item
	if o.T.IsFlag() {
		shortOK := o.Short != 0 && scope.Short[o.Short] == o
		longOK := o.Long != "" && scope.Long[s.D.FullLong(o)] == o
		if !shortOK && !longOK {
			return false
		}
		it = &Item{Kind: IFlag, Opt: o, Long: longOK && (!shortOK || r.Bool())}
		if allowCluster && shortOK && r.Chance(1, 3) {
			// inside a cluster with another addressable flag
			for _, f := range scope.Addressable(s.D) {
				if f != o && f.T.IsFlag() && f.Short != 0 && scope.Short[f.Short] == f && !f.Required {
					it = &Item{Kind: ICluster, Flags: []*Opt{f, o}}
					if r.Bool() {
						it.Flags = []*Opt{o, f}
					}
					break
				}
			}
		}
	} else {
		txt := GenValueText(r, o)
		it = &Item{Kind: IOcc, Opt: o, Text: txt}
		if !o.NoUnquote && strings.HasPrefix(txt, "\"") {
			it.Quoted = true
		}
		sps := AdmissibleSpellings(s.D, scope, o, it.argText())
		if len(sps) == 0 {
			return false
		}
		it.Sp = sps[r.Intn(len(sps))]
	}
	var items []*Item
	items = append(items, s.Items[:at]...)
	items = append(items, it)
	items = append(items, s.Items[at:]...)
	s.Items = items
	return true
}
