package main

import (
	"fmt"
	"strconv"
	"strings"

	flags "github.com/jessevdk/go-flags"
)

// C14: INI reading is robust and pinpoints errors.

func c14Cfg() *DeclCfg {
	types := []TypeSpec{{K: KString}, {K: KString}, {K: KInt}, {K: KUint8}, {K: KFloat64}, {K: KDuration}, {K: KBool}, {K: KString, W: WSlice}, {K: KInt, W: WSlice}, {K: KString, W: WPtr},
		{K: KString, W: WMap, MapKey: KString}, {K: KInt, W: WMap, MapKey: KString}, {K: KCelsius}, {K: KString, W: WFunc1}, {W: WFunc0}}
	return &DeclCfg{
		MaxDepth: 2, MaxFan: 2, PCmds: 60, Types: types, OptsMin: 1, OptsMax: 4, SubGroupsMax: 2, NestMax: 2,
		PInline: 25, PNameless: 8, PCmdTwin: 20, PDupField: 20, PNoIni: 10, PNamespace: 30, PShortOnly: 15, PLongOnly: 15, PDefault: 15, PBase: 15, PChoices: 5,
		PExec: 30, PByTag: 50, PSubOptional: 100, PIniName: 20,
		ParserOpts: []flags.Options{0, flags.HelpFlag},
	}
}

type iniLine struct {
	Text   string
	Kind   string // header | entry | noise | fault
	Opt    *Opt
	Sect   string
	GrpRef *Grp
}

// sectionOf gives the most specific section name that addresses option o, and its group.
func sectionOf(o *Opt) (string, *Grp) {
	var path []string
	for _, cm := range o.Cmd.Chain()[1:] {
		path = append(path, cm.Name)
	}
	g := o.Grp.Owner() // (options of an untagged nested struct are part of the enclosing group)
	if g.Parent == nil && !g.ByAddGroup {
		if len(path) == 0 {
			return "Application Options", g
		}
		return strings.Join(path, "."), g
	}
	return strings.Join(append(path, g.Desc), "."), g
}

// iniKeySingles: key names option o, and only o, among the options the groups denote (no-ini options do not
// compete under either reading of "no-ini", see C13).
func iniKeySingles(d *Decl, groups []*Grp, key string, o *Opt) bool {
	if resolveIniName(d, groups, key) != o || resolveVisible(d, groups, key) != o {
		return false
	}
	n := 0
	for _, x := range groupTree(groups[0]) {
		if x.NoIni {
			continue
		}
		if (x.IniName != "" && strings.EqualFold(x.IniName, key)) || x.Field == key || (x.Long != "" && d.FullLong(x) == key) || (x.Short != 0 && string(x.Short) == key) {
			n++
		}
	}
	return n == 1
}

func c14BaseFile(r *Rand, d *Decl) []iniLine {
	bySect := map[string][]*Opt{}
	var order []string
	grp := map[string]*Grp{}
	preamble := r.Chance(1, 3)
	for _, o := range d.Opts {
		if o.NoIni || !r.Chance(2, 3) {
			continue
		}
		s, g := sectionOf(o)
		key := o.Field
		if o.IniName != "" {
			key = o.IniName
		}
		if preamble && o.Cmd == d.Root && r.Bool() && iniKeySingles(d, preorderGroups(d.Root.G), key, o) {
			// entries before any header address all of the parser's own groups
			s, g = "", d.Root.G
		} else if !iniKeySingles(d, []*Grp{g}, key, o) {
			continue
		}
		if _, ok := bySect[s]; !ok {
			order = append(order, s)
			grp[s] = g
		}
		bySect[s] = append(bySect[s], o)
	}
	// random section order
	perm := r.Perm(len(order))
	// (the header-less block can only come first)
	for i, pi := range perm {
		if order[pi] == "" {
			perm[0], perm[i] = perm[i], perm[0]
		}
	}
	var lines []iniLine
	for _, pi := range perm {
		s := order[pi]
		if s != "" {
			lines = append(lines, iniLine{Text: "[" + s + "]", Kind: "header", Sect: s, GrpRef: grp[s]})
		}
		for _, o := range bySect[s] {
			n := 1
			if o.T.IsMulti() {
				n = r.Range(1, 3)
			}
			name := o.Field
			if o.IniName != "" {
				name = o.IniName
			}
			for i := 0; i < n; i++ {
				var v string
				switch {
				case o.T.IsFlag():
					v = "true"
				case o.T.K == KString && o.T.W != WMap && !o.T.IsFunc() && len(o.Choices) == 0 && r.Chance(1, 3):
					v = strconv.Quote(c12String(r))
					if len(v) > 20000 {
						v = strconv.Quote("long " + strings.Repeat("z", 9000))
					}
					if r.Chance(1, 6) {
						// a value that spans several chunks of the line reader, with a recognisable tail
						v = strconv.Quote(strings.Repeat("v", r.Range(4080, 4110)) + "-tail" + fmt.Sprint(r.Intn(1000)))
					}
					if r.Chance(1, 250) {
						v = strconv.Quote(strings.Repeat("V", 1<<20+r.Intn(5)-2) + "-tail" + fmt.Sprint(r.Intn(1000)))
					}
				default:
					v = GenScalarTextSimple(r, o)
					if strings.HasPrefix(v, "\x00") {
						continue
					}
				}
				lines = append(lines, iniLine{Text: name + " = " + v, Kind: "entry", Opt: o, Sect: s, GrpRef: grp[s]})
			}
		}
	}
	return lines
}

func c14Noise(r *Rand) string {
	switch r.Intn(9) {
	case 0:
		return ""
	case 1:
		return "   "
	case 2:
		return "; a comment = with [brackets] and \"quotes"
	case 3:
		return "# hash comment"
	case 4:
		return "\t ; indented comment"
	case 5:
		if r.Chance(1, 40) {
			// a line of a mebibyte (a pasted certificate chain, a generated file): no line is too long to be read
			return ";" + strings.Repeat("m", 1<<20+r.Intn(5)-2)
		}
		return "; " + strings.Repeat("long comment ", r.Range(315, 5400)) // 4 kB .. 70 kB
	case 6:
		return ";" + strings.Repeat("x", r.Range(4090, 4100))
	case 7:
		return "#"
	}
	return "\t"
}

// decorate adds meaning-preserving whitespace to a line.
func c14Decorate(r *Rand, ln iniLine) string {
	t := ln.Text
	if ln.Kind == "entry" {
		i := strings.Index(t, " = ")
		name, val := t[:i], t[i+3:]
		sp := []string{"", " ", "  ", "\t", " \t "}
		t = sp[r.Intn(len(sp))] + name + sp[r.Intn(len(sp))] + "=" + sp[r.Intn(len(sp))] + val + sp[r.Intn(len(sp))]
	} else if ln.Kind == "header" {
		sp := []string{"", " ", "\t"}
		in := t[1 : len(t)-1]
		t = sp[r.Intn(3)] + "[" + sp[r.Intn(3)] + in + sp[r.Intn(3)] + "]" + sp[r.Intn(3)]
	}
	return t
}

func joinLines(r *Rand, lines []string, crlf int) string {
	var sb strings.Builder
	for i, l := range lines {
		sb.WriteString(l)
		last := i == len(lines)-1
		switch {
		case crlf == 2 || (crlf == 1 && r.Bool()):
			sb.WriteString("\r\n")
		case last && r.Chance(1, 4):
			// no final newline
		default:
			sb.WriteString("\n")
		}
	}
	return sb.String()
}

func c14Parse(d *Decl, text string, ignore bool) (map[string]string, []CallEntry, error, *PanicInfo) {
	b := d.Build()
	var ip *flags.IniParser
	if c14LateOptions {
		// the IniParser is created before the program has settled its parser options (e.g. a lenient first pass
		// over the command line that looks for --config): what counts is the setting when the file is read
		b.P.Options |= flags.IgnoreUnknown
		if ignore {
			b.P.Options &^= flags.IgnoreUnknown
		}
		ip = flags.NewIniParser(b.P)
		b.P.Options &^= flags.IgnoreUnknown
	}
	if ignore {
		b.P.Options |= flags.IgnoreUnknown
	}
	if c14WithHandler {
		// an unknown-option handler is a command-line hook: INI reading reports unknown options and sections all the same
		b.P.UnknownOptionHandler = func(option string, arg flags.SplitArgument, args []string) ([]string, error) {
			return args, nil
		}
	}
	var err error
	if ip == nil {
		ip = flags.NewIniParser(b.P)
	}
	pi := safely(func() { err = ip.Parse(strings.NewReader(text)) })
	return d.Snapshot(), b.Log.E, err, pi
}

// c14LateOptions: the IniParser of the current case is created while IgnoreUnknown has the opposite setting.
var c14LateOptions bool

// c14WithHandler: the parsers of the current case carry an UnknownOptionHandler (C14 cases run one at a time).
var c14WithHandler bool

func c14Run(c *Ctx) {
	r := c.R
	mode := c.K % 4
	c14WithHandler = (c.K/4)%3 == 1
	c14LateOptions = (c.K/12)%2 == 1
	d := GenDecl(c.Sub("d"), c14Cfg())
	if inHistTail(c, 40000, 1600000) {
		// one IniParser used for two reads while the program changes the model in between
		c.Case(func() interface{} { return map[string]interface{}{"declaration_after_the_change": d.Describe()} })
		if hl := histIniReuse(c, d); hl != "" && !c.Violated() {
			c.Held("history/ini-reuse/"+hl, fmt.Sprintf("opts=%d", minInt(len(d.Opts), 30)))
		}
		return
	}
	if mode == 0 {
		c14Arbitrary(c, d)
		return
	}
	if c.K%9 == 5 {
		// entries that name options registered through the public AddOption API
		apiIniCase(c, d)
		return
	}
	base := c14BaseFile(r, d)
	var plain []string
	for _, l := range base {
		plain = append(plain, l.Text)
	}
	baseText := strings.Join(plain, "\n") + "\n"
	snap0, log0, err0, pi0 := c14Parse(d, baseText, false)
	c.Count("files_parsed", 1)
	if pi0 != nil {
		c.Violate("panic:"+panicSite(pi0.Stack), "reading a well-formed file panicked: %s", pi0.Value)
		c.Case(func() interface{} {
			return map[string]interface{}{"declaration": d.Describe(), "ini": clip(baseText, 3000)}
		})
		return
	}
	if err0 != nil {
		c.Violate("base-file-rejected", "well-formed file rejected: %v", err0)
		c.Case(func() interface{} {
			return map[string]interface{}{"declaration": d.Describe(), "ini": clip(baseText, 3000)}
		})
		return
	}
	// exact values of plain string options (in particular values longer than the 4096-byte read buffer)
	last := map[*Opt]string{}
	for _, l := range base {
		if l.Kind == "entry" && l.Opt.T.K == KString && l.Opt.T.W == WScalar {
			v := l.Text[strings.Index(l.Text, " = ")+3:]
			if strings.HasPrefix(v, "\"") {
				v, _ = strconv.Unquote(v)
			}
			last[l.Opt] = v
		}
	}
	for o, v := range last {
		if got := snap0["o"+itoa(o.ID)]; got != strconv.Quote(v) {
			c.Violate("entry-value", "option %s: the file says %s (%d bytes), the field holds %s", o.Field, clip(strconv.Quote(v), 80), len(v), clip(got, 80))
			c.Case(func() interface{} {
				return map[string]interface{}{"declaration": d.Describe(), "ini": clip(baseText, 6000)}
			})
			return
		}
	}
	// noisy variant
	var noisy []string
	var meta []iniLine
	crlf := r.Intn(3)
	curHeader := ""
	for _, l := range base {
		for r.Chance(1, 3) {
			noisy = append(noisy, c14Noise(r))
			meta = append(meta, iniLine{Kind: "noise"})
		}
		if l.Kind == "header" {
			curHeader = l.Text
		} else if curHeader != "" && r.Chance(1, 8) {
			// re-opening the current section changes nothing
			noisy = append(noisy, curHeader)
			meta = append(meta, iniLine{Kind: "noise"})
		}
		noisy = append(noisy, c14Decorate(r, l))
		meta = append(meta, l)
	}
	for r.Chance(1, 2) {
		noisy = append(noisy, c14Noise(r))
		meta = append(meta, iniLine{Kind: "noise"})
	}
	switch mode {
	case 1: // noise invariance
		text := joinLines(r, noisy, crlf)
		if n := len(noisy); n > 0 && meta[n-1].Kind == "entry" && r.Chance(1, 3) {
			// the last entry padded with trailing blanks to an exact multiple of the line reader's buffer, and no
			// final newline
			lines := append([]string{}, noisy...)
			target := 4096 * r.Range(1, 2)
			if len(lines[n-1]) < target {
				lines[n-1] += strings.Repeat(" ", target-len(lines[n-1]))
			}
			text = strings.Join(lines, "\n")
		}
		c.Case(func() interface{} {
			return map[string]interface{}{"declaration": d.Describe(), "base": clip(baseText, 2000), "noisy": clip(text, 3000), "crlf": crlf}
		})
		snap1, log1, err1, pi1 := c14Parse(d, text, false)
		c.Count("files_parsed", 1)
		if pi1 != nil {
			c.Violate("panic:"+panicSite(pi1.Stack), "reading the noisy file panicked: %s", pi1.Value)
			return
		}
		if err1 != nil {
			c.Violate("noise:rejected", "noise lines made the file unreadable: %v", err1)
			return
		}
		for k, v := range snap0 {
			if snap1[k] != v {
				c.Violate("noise:value-changed", "field %s: %s without noise, %s with noise", k, clip(v, 200), clip(snap1[k], 200))
				return
			}
		}
		if !eqCalls(log0, log1) {
			c.Violate("noise:call-log", "call log differs: %v vs %v", log0, log1)
			return
		}
		long := 0
		for _, l := range noisy {
			if len(l) > 4000 {
				long++
			}
		}
		c.Held(fmt.Sprintf("noise/crlf%d", crlf), fmt.Sprintf("lines=%d long=%d", minInt(len(noisy), 40), minInt(long, 3)))
	case 2: // one faulty line at a chosen position
		c14Fault(c, d, noisy, meta, crlf)
	case 3: // IgnoreUnknown skips unknown sections and options, applies the rest
		var with []string
		unk := 0
		for i, l := range noisy {
			if meta[i].Kind == "entry" && r.Chance(1, 4) {
				key := fmt.Sprintf("zz_unknown_%d", i)
				if r.Chance(1, 3) {
					// a name that is unknown HERE but names an option of a section further down: skipping it here
					// says nothing about the later line
					groups := []*Grp{meta[i].GrpRef}
					if meta[i].Sect == "" {
						groups = preorderGroups(d.Root.G)
					}
					for j := i + 1; j < len(meta); j++ {
						if meta[j].Kind == "entry" && meta[j].Sect != meta[i].Sect {
							k2 := meta[j].Opt.Field
							if meta[j].Opt.IniName != "" {
								k2 = meta[j].Opt.IniName
							}
							if resolveIniName(d, groups, k2) == nil && resolveVisible(d, groups, k2) == nil {
								key = k2
								break
							}
						}
					}
				}
				with = append(with, key+" = 1")
				unk++
			}
			with = append(with, l)
		}
		if r.Bool() {
			with = append(with, "[No Such Group "+fmt.Sprint(r.Intn(100))+"]", "anything = 1", "Val = 2")
			unk++
		}
		if r.Bool() {
			with = append([]string{"zz_preamble_unknown = x"}, with...)
			unk++
		}
		text := joinLines(r, with, crlf)
		c.Case(func() interface{} {
			return map[string]interface{}{"declaration": d.Describe(), "ini": clip(text, 3000), "unknown_items": unk}
		})
		snap1, log1, err1, pi1 := c14Parse(d, text, true)
		c.Count("files_parsed", 1)
		if pi1 != nil {
			c.Violate("panic:"+panicSite(pi1.Stack), "panic: %s", pi1.Value)
			return
		}
		if err1 != nil {
			c.Violate("ignore-unknown:rejected", "IgnoreUnknown is set but the file was rejected: %v", err1)
			return
		}
		for k, v := range snap0 {
			if snap1[k] != v {
				c.Violate("ignore-unknown:value-changed", "field %s: %s expected (known entries applied), got %s", k, clip(v, 200), clip(snap1[k], 200))
				return
			}
		}
		if !eqCalls(log0, log1) {
			c.Violate("ignore-unknown:call-log", "call log differs")
			return
		}
		if unk == 0 {
			return
		}
		c.Held("ignore-unknown", fmt.Sprintf("unk=%d lines=%d", minInt(unk, 5), minInt(len(with), 30)))
	}
}

var c14Faults = []string{"no-equals", "open-bracket", "empty-section", "bad-quote", "unknown-option", "unconvertible", "unknown-section", "empty-key", "bad-map-quote"}

func c14Fault(c *Ctx, d *Decl, noisy []string, meta []iniLine, crlf int) {
	r := c.R
	fault := c14Faults[(c.K/4)%int64(len(c14Faults))]
	// position p (0-based index at which the faulty line is inserted => physical line p+1)
	n := len(noisy)
	p := r.Intn(n + 1)
	// the section in effect at p
	var cur *iniLine
	for i := 0; i < p; i++ {
		if meta[i].Kind == "header" {
			cur = &meta[i]
		}
	}
	var line string
	switch fault {
	case "no-equals":
		line = r.Pick([]string{"justtext", "key value", "key: value", "]", "x[y]"})
	case "open-bracket":
		line = r.Pick([]string{"[abc", "[", "[abc] trailing", "[a]b"})
	case "empty-section":
		line = r.Pick([]string{"[]", "[ ]", "[\t]"})
	case "bad-quote":
		bad := r.Pick([]string{"\"abc", "\"", "\"a\\xZZ\"", "\"a\"b\"", "\"abc\" trailing", "\"\"\"", "\"x\" ; \"y\""})
		line = "Whatever = " + bad
		// preferably on a known string option of the section in effect, so that the quoting is the only fault
		var cands []int
		for i, m := range meta {
			if m.Kind == "entry" && m.Opt.T.K == KString && m.Opt.T.W == WScalar && len(m.Opt.Choices) == 0 {
				cands = append(cands, i)
			}
		}
		if len(cands) > 0 {
			i := cands[r.Intn(len(cands))]
			p = i + 1
			name := meta[i].Opt.Field
			if meta[i].Opt.IniName != "" {
				name = meta[i].Opt.IniName
			}
			line = name + " = " + bad
		}
	case "unknown-option":
		line = fmt.Sprintf("zz_no_such_option_%d = 1", r.Intn(100))
		// near misses of a key that the same section uses just before: another letter case (only ini-names are
		// matched case-insensitively), one character more or less
		var cands []int
		for i, m := range meta {
			if m.Kind == "entry" && m.Opt.IniName == "" {
				cands = append(cands, i)
			}
		}
		if len(cands) > 0 && r.Chance(2, 3) {
			i := cands[r.Intn(len(cands))]
			f := meta[i].Opt.Field
			key := []string{strings.ToLower(f), f + "x", f[:len(f)-1], strings.ToLower(f[:1]) + f[1:]}[r.Intn(4)]
			known := key == ""
			for _, o := range d.Opts {
				if strings.EqualFold(o.IniName, key) || o.Field == key || (o.Long != "" && d.FullLong(o) == key) || (o.Short != 0 && string(o.Short) == key) {
					known = true
				}
			}
			if !known {
				p = i + 1
				line = key + " = 1"
			}
		}
	case "empty-key":
		line = r.Pick([]string{"= 5", " = x", "=", "\t=\tvalue"})
	case "unconvertible", "bad-map-quote":
		// needs a typed option addressed by the section in effect at p: move p to just after a suitable entry
		var cands []int
		for i, m := range meta {
			if m.Kind != "entry" {
				continue
			}
			t := m.Opt.T
			if fault == "unconvertible" && !t.IsFunc() && t.W != WMap && (isIntKind(t.K) || t.K == KFloat64 || t.K == KDuration || t.K == KCelsius) {
				cands = append(cands, i)
			}
			if fault == "bad-map-quote" && t.W == WMap {
				cands = append(cands, i)
			}
		}
		if len(cands) == 0 {
			c.Unspec("no option for fault " + fault)
			return
		}
		i := cands[r.Intn(len(cands))]
		p = i + 1
		name := meta[i].Opt.Field
		if meta[i].Opt.IniName != "" {
			name = meta[i].Opt.IniName
		}
		if fault == "unconvertible" {
			line = name + " = " + r.Pick([]string{"!!", "1!", "--", "9999999999999999999999999999999999999999999999!"})
		} else {
			line = name + " = " + r.Pick([]string{"k:\"unterminated", "k:\"", "k:\"a\"b\"", "k:\"\\q\""})
		}
	case "unknown-section":
		line = fmt.Sprintf("[No Such Group %d]", r.Intn(100))
		// near misses of real sections: a command name plus one character, with or without a group part, a group
		// description plus a character, a command path with a wrong separator
		var real []string
		for _, m := range meta {
			if m.Kind == "header" {
				real = append(real, m.Sect)
			}
		}
		for _, cm := range d.Cmds[1:] {
			real = append(real, cm.Name)
		}
		if len(real) > 0 && r.Chance(2, 3) {
			s := real[r.Intn(len(real))]
			switch r.Intn(5) {
			case 0:
				s += "s"
			case 1:
				s = strings.Replace(s, ".", "-", 1) + "2"
			case 2:
				s = "x" + s
			case 3:
				if i := strings.Index(s, "."); i > 0 {
					s = s[:i] + "s" + s[i:]
				} else {
					s += "-Other Options"
				}
			default:
				s = s + "." + "nothing"
			}
			known := false
			for _, x := range real {
				if strings.EqualFold(x, s) {
					known = true
				}
			}
			if !known && !strings.EqualFold(s, "Application Options") {
				line = "[" + s + "]"
			}
		}
	}
	_ = cur
	var lines []string
	lines = append(lines, noisy[:p]...)
	lines = append(lines, line)
	lines = append(lines, noisy[p:]...)
	text := joinLines(r, lines, crlf)
	c.Case(func() interface{} {
		return map[string]interface{}{"declaration": d.Describe(), "ini": clip(text, 3000), "fault": fault, "faulty_line": line, "physical_line": p + 1, "crlf": crlf}
	})
	_, _, err, pi := c14Parse(d, text, false)
	c.Count("files_parsed", 1)
	if pi != nil {
		c.Violate("panic:"+panicSite(pi.Stack), "panic on faulty line %q: %s", line, pi.Value)
		return
	}
	cell := "fault/" + fault
	shape := fmt.Sprintf("line=%d/%d crlf=%d", minInt(p+1, 60), minInt(len(lines), 60), crlf)
	if err == nil {
		c.Violate("fault:"+fault+":not-reported", "faulty line %q at physical line %d was not reported", line, p+1)
		return
	}
	if fault == "unknown-section" {
		fe, ok := err.(*flags.Error)
		if !ok || fe.Type != flags.ErrUnknownGroup {
			c.Violate("fault:unknown-section:wrong-error", "unknown section reported as %s (%v), want ErrUnknownGroup", errTypeName(err), err)
			return
		}
		c.Held(cell, shape)
		return
	}
	ie, ok := err.(*flags.IniError)
	if !ok {
		c.Violate("fault:"+fault+":not-located", "fault %q reported as %s (%v) without a line number", line, errTypeName(err), err)
		return
	}
	if int(ie.LineNumber) != p+1 {
		c.Violate("fault:"+fault+":wrong-line", "fault %q is on physical line %d, reported line %d (%s)", line, p+1, ie.LineNumber, ie.Message)
		return
	}
	c.Held(cell, shape)
}

var c14Dict = []string{"[", "]", "=", ":", "\"", "\\", "\r", "\n", "\r\n", "\x00", " ", "\t", ";", "#", "[Application Options]", "true", "false", "1", "-1", "1h", "k:v", "k:", ":\"", "=\"", "\"\\", "\xff", "\xef\xbb\xbf", "[]", "[ ]", "= ", " =", "==", "a=b=c"}

func c14Arbitrary(c *Ctx, d *Decl) {
	r := c.R
	var names []string
	for _, o := range d.Opts {
		names = append(names, o.Field, o.Field+" = ", o.Field+" = "+GenScalarTextSimple(r, o))
		if o.Long != "" {
			names = append(names, d.FullLong(o)+"=")
		}
		if o.IniName != "" {
			names = append(names, o.IniName+" =")
		}
	}
	for _, g := range d.Grps {
		if g.Desc != "" {
			names = append(names, "["+g.Desc+"]\n")
		}
	}
	for _, cm := range d.Cmds[1:] {
		names = append(names, "["+cm.Name+"]\n", cm.Name+".")
	}
	var sb strings.Builder
	n := r.Range(0, 60)
	for i := 0; i < n; i++ {
		switch x := r.Intn(10); {
		case x < 4 && len(names) > 0:
			sb.WriteString(names[r.Intn(len(names))])
		case x < 8:
			sb.WriteString(c14Dict[r.Intn(len(c14Dict))])
		case x < 9:
			l := r.Range(1, 8)
			for j := 0; j < l; j++ {
				sb.WriteByte(byte(r.Intn(256)))
			}
		default:
			sb.WriteString(strings.Repeat("x", []int{4094, 4095, 4096, 4097, 4098, 8192, 70000}[r.Intn(7)]))
			if r.Bool() {
				sb.WriteString("\r")
			}
			sb.WriteString("\n")
		}
	}
	text := sb.String()
	ignore := r.Bool()
	c.Case(func() interface{} {
		return map[string]interface{}{"declaration": d.Describe(), "ini_bytes": fmt.Sprintf("%q", clip(text, 2000)), "ignore_unknown": ignore}
	})
	_, _, err, pi := c14Parse(d, text, ignore)
	c.Count("files_parsed", 1)
	c.Count("arbitrary_bytes_fed", int64(len(text)))
	if pi != nil {
		c.Violate("panic:"+panicSite(pi.Stack), "reading arbitrary bytes panicked: %s", pi.Value)
		c.Note("stack", pi.Stack)
		return
	}
	res := "ok"
	if err != nil {
		res = "err"
		switch e := err.(type) {
		case *flags.IniError:
			res = "IniError"
			nl := strings.Count(text, "\n") + 1
			if int(e.LineNumber) < 1 || int(e.LineNumber) > nl {
				c.Violate("arbitrary:line-out-of-range", "reported line %d, the input has %d lines", e.LineNumber, nl)
				return
			}
		case *flags.Error:
			res = e.Type.String()
		}
	}
	c.Held("arbitrary/"+res, fmt.Sprintf("len=%d ignore=%v", minInt(len(text)/100, 50), ignore))
}

func init() {
	register(&Property{
		ID:    "C14",
		Title: "INI reading is robust and pinpoints errors",
		Cases: func(tier string) int64 {
			switch tier {
			case "thorough":
				return 1600000 + 133333 // + history cases
			case "race":
				return 0
			}
			return 40000 + 3333 // + history cases
		},
		Run:              c14Run,
		MinNontrivial:    300,
		DeathIsViolation: true,
		HangIsViolation:  true,
		Rule: "case k, k mod 4: (0) arbitrary bytes from a dictionary-guided mutator (declared option/ini/section names, [ ] = : \" \\ CR LF NUL BOM, random bytes, lines of 4094..4098/8192/70000 bytes with and without CR), with and without IgnoreUnknown: returns normally, a reported line lies inside the input; (1) a well-formed structured file versus the same file with blank lines, ; and # comments (up to 70 kB long), indentation, blanks around =, and LF / mixed / CRLF line ends: equal value snapshots and call logs; (2) one faulty line of kind (k/4 mod 9) in {no '=', unterminated '[', empty '[ ]', bad quoting, unknown option, unconvertible value, unknown section, empty key, bad map quoting} inserted at a random physical line of the noisy file: reported with exactly that 1-based line number (unknown section: ErrUnknownGroup); (3) unknown sections/options sprinkled in under IgnoreUnknown: result equals the file without them. " +
			"k mod 9 = 5 (outside mode 0): global-section entries naming 1-3 options registered through the public AddOption API (effective long name or short name, noise lines, five spacings of the equals sign, LF/CRLF): a well-formed file is applied exactly to the program's own variables, one planted unconvertible value is reported as *flags.IniError with its line number; " +
			"distinct = (mode, fault kind, line position, line-end style, size).",
		Assumptions: []string{"each option is set in at most one section of a generated file (which section wins otherwise is C15's question)", "with several faulty lines the statement does not say which is reported; only single faults are generated"},
		Technique:   "runtime safety monitor (panic/hang) on dictionary-guided arbitrary input + metamorphic noise invariance + fault localisation with the injected line position known by construction; multi-step histories on one parser with direct oracles",
		LevelText:   "Exploration/fault enumeration by input: faulty line of each kind at every relative position of files of varying shape, noise invariance, and totality on arbitrary bytes.",
		LevelNote:   "Trusted: the generator's knowledge of the physical line at which the fault was inserted.",
		DesignRef:   "§4 C14",
	})
}
