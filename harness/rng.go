package main

// Deterministic PRNG: case k of property P at seed S is a pure function of (P,S,k).

type Rand struct{ s uint64 }

func splitmix(x *uint64) uint64 {
	*x += 0x9E3779B97F4A7C15
	z := *x
	z = (z ^ (z >> 30)) * 0xBF58476D1CE4E5B9
	z = (z ^ (z >> 27)) * 0x94D049BB133111EB
	return z ^ (z >> 31)
}

func hashStr(s string) uint64 {
	h := uint64(14695981039346656037)
	for i := 0; i < len(s); i++ {
		h ^= uint64(s[i])
		h *= 1099511628211
	}
	return h
}

func NewRand(prop string, seed int64, k int64, salt uint64) *Rand {
	x := hashStr(prop) ^ (uint64(seed) * 0xD1342543DE82EF95) ^ (uint64(k) * 0xA0761D6478BD642F) ^ salt
	r := &Rand{s: x}
	r.Uint64()
	r.Uint64()
	return r
}

func (r *Rand) Uint64() uint64 { return splitmix(&r.s) }

func (r *Rand) Intn(n int) int {
	if n <= 0 {
		return 0
	}
	return int(r.Uint64() % uint64(n))
}

// Range returns a value in [lo,hi] inclusive.
func (r *Rand) Range(lo, hi int) int {
	if hi <= lo {
		return lo
	}
	return lo + r.Intn(hi-lo+1)
}

func (r *Rand) Bool() bool { return r.Uint64()&1 == 1 }

// Chance returns true with probability num/den.
func (r *Rand) Chance(num, den int) bool { return r.Intn(den) < num }

func (r *Rand) Pick(ss []string) string {
	if len(ss) == 0 {
		return ""
	}
	return ss[r.Intn(len(ss))]
}

func (r *Rand) Perm(n int) []int {
	p := make([]int, n)
	for i := range p {
		p[i] = i
	}
	for i := n - 1; i > 0; i-- {
		j := r.Intn(i + 1)
		p[i], p[j] = p[j], p[i]
	}
	return p
}
