package main

import (
	"fmt"
	"sort"
	"strings"
	"unicode/utf8"

	flags "github.com/jessevdk/go-flags"
)

// refLevenshtein: textbook full-matrix edit distance over runes (independent of closest.go).
func refLevenshtein(a, b string) int {
	s, t := []rune(a), []rune(b)
	d := make([][]int, len(s)+1)
	for i := range d {
		d[i] = make([]int, len(t)+1)
		d[i][0] = i
	}
	for j := 0; j <= len(t); j++ {
		d[0][j] = j
	}
	for i := 1; i <= len(s); i++ {
		for j := 1; j <= len(t); j++ {
			cost := 1
			if s[i-1] == t[j-1] {
				cost = 0
			}
			m := d[i-1][j-1] + cost
			if d[i-1][j]+1 < m {
				m = d[i-1][j] + 1
			}
			if d[i][j-1]+1 < m {
				m = d[i][j-1] + 1
			}
			d[i][j] = m
		}
	}
	return d[len(s)][len(t)]
}

var c20Alphabet = []string{"a", "b", "é"}
var c20Strings []string // all strings of length 0..4 over the alphabet

func init() {
	cur := []string{""}
	c20Strings = append(c20Strings, "")
	for l := 1; l <= 4; l++ {
		var next []string
		for _, p := range cur {
			for _, a := range c20Alphabet {
				next = append(next, p+a)
			}
		}
		c20Strings = append(c20Strings, next...)
		cur = next
	}
}

const c20Enum = 120 * 121

// a second exhaustive block over characters whose UTF-8 encodings share their last byte (é c3a9, ĩ c4a9, ũ c5a9):
// all strings of length 0..3
var c20Strings2 []string

const c20Enum2 = 84 * 85

func init() {
	cur := []string{""}
	c20Strings2 = append(c20Strings2, "")
	for l := 1; l <= 3; l++ {
		var next []string
		for _, p := range cur {
			for _, a := range []string{"a", "é", "ĩ", "ũ"} {
				next = append(next, p+a)
			}
		}
		c20Strings2 = append(c20Strings2, next...)
		cur = next
	}
}

type c20Case struct {
	Visible []string
	Hidden  []string
	Word    string
	HasWord bool
	Depth   int
}

func c20Gen(c *Ctx) (cs c20Case, cell string) {
	k := c.K
	if k < c20Enum {
		name := c20Strings[1+int(k)/121]
		word := c20Strings[int(k)%121]
		return c20Case{Visible: []string{name}, Word: word, HasWord: true}, "enum-pair"
	}
	if k < c20Enum+c20Enum2 {
		k -= c20Enum
		return c20Case{Visible: []string{c20Strings2[1+int(k)/85]}, Word: c20Strings2[int(k)%85], HasWord: true}, "enum-pair-shared-tail-bytes"
	}
	r := c.R
	mode := int(k % 6)
	alpha := []string{"a", "b", "c", "d", "e", "x", "é", "è", "ê", "-", "1", "λ", "μ", "ĩ", "ũ", "%", "s"}
	mk := func(lo, hi int) string {
		n := r.Range(lo, hi)
		s := ""
		for i := 0; i < n; i++ {
			s += alpha[r.Intn(len(alpha))]
		}
		if strings.HasPrefix(s, "-") {
			s = "q" + s
		}
		return s
	}
	seen := map[string]bool{}
	nv := r.Range(1, 8)
	if mode == 5 {
		nv = r.Range(0, 2)
	}
	for i := 0; i < nv; i++ {
		var s string
		if len(cs.Visible) > 0 && r.Chance(1, 3) {
			// a near relative of an existing name, so that ties and close calls occur
			s = mutateWord(r, cs.Visible[r.Intn(len(cs.Visible))], alpha)
		} else {
			s = mk(1, 9)
		}
		if s != "" && !seen[s] && !strings.HasPrefix(s, "-") {
			seen[s] = true
			cs.Visible = append(cs.Visible, s)
		}
	}
	for i := r.Range(0, 3); i > 0; i-- {
		var s string
		if len(cs.Visible) > 0 && r.Bool() {
			s = mutateWord(r, cs.Visible[r.Intn(len(cs.Visible))], alpha)
		} else {
			s = mk(1, 6)
		}
		if s != "" && !seen[s] && !strings.HasPrefix(s, "-") {
			seen[s] = true
			cs.Hidden = append(cs.Hidden, s)
		}
	}
	cs.Depth = r.Intn(2)
	switch mode {
	case 0: // near miss of a visible name
		if len(cs.Visible) > 0 {
			cs.Word = mutateWord(r, cs.Visible[r.Intn(len(cs.Visible))], alpha)
		} else {
			cs.Word = mk(1, 5)
		}
		cs.HasWord = true
		cell = "near-visible"
	case 1: // near miss of a hidden name (or the hidden name's neighbourhood)
		if len(cs.Hidden) > 0 {
			cs.Word = mutateWord(r, cs.Hidden[r.Intn(len(cs.Hidden))], alpha)
		} else {
			cs.Word = mk(1, 5)
		}
		cs.HasWord = true
		cell = "near-hidden"
	case 2: // unrelated word, shares no character
		n := r.Range(1, 12)
		for i := 0; i < n; i++ {
			cs.Word += []string{"z", "y", "w", "Ж", "9"}[r.Intn(5)]
		}
		cs.HasWord = true
		cell = "unrelated"
	case 3: // no word at all: ErrCommandRequired
		cell = "command-required"
	case 4: // very short / very long words
		if r.Bool() {
			cs.Word = mk(1, 1)
		} else {
			cs.Word = mk(10, 20)
		}
		cs.HasWord = true
		cell = "short-or-long"
	default:
		cs.Word = mk(0, 4)
		cs.HasWord = true
		cell = "few-visible"
	}
	if cs.HasWord && (optionShaped(cs.Word) || cs.Word == "--") {
		cs.Word = "w" + cs.Word
	}
	if (k/6)%11 == 7 {
		// very long names and words (beyond any fixed work bound): the distance is still the true one
		base := ""
		for len([]rune(base)) < 90 {
			base += alpha[r.Intn(len(alpha))]
		}
		br := []rune(base)
		if br[0] == '-' {
			br[0] = 'q'
		}
		n1 := string(br[:r.Range(45, 60)])
		n2 := string(br[:r.Range(66, 80)])
		n3 := string(br[:65]) + "zz"
		cs.Visible = []string{n1, n2, n3, "short"}
		cs.Hidden = nil
		switch r.Intn(3) {
		case 0:
			cs.Word = n1 + string(br[60:90]) // far from everything: enumerate
		case 1:
			cs.Word = n2 + "y" // nearest: n2 at distance 1 (n3 shares the first 65 runes)
		default:
			cs.Word = string(br[:70]) + "y"
		}
		cs.HasWord = true
		cell = "very-long-names"
	}
	if (k/6)%13 == 5 && cs.HasWord {
		// a word of hundreds of characters (a pasted token, a path, a blob of JSON where the command was forgotten):
		// it is far from every name, whatever its length is modulo any machine word size
		n := []int{255, 256, 257, 300, 511, 512, 513, 1024, 1025}[r.Intn(9)] + r.Intn(2)*r.Intn(40)
		w := []rune{}
		for len(w) < n {
			w = append(w, []rune(alpha[r.Intn(len(alpha))])[0])
		}
		if w[0] == '-' {
			w[0] = 'q'
		}
		cs.Word = string(w)
		cell = "word-of-hundreds-of-characters"
		if n >= 1024 && r.Bool() {
			// ... and a command name of the same size, one or two slips away from it
			nm := mutateWord(r, mutateWord(r, cs.Word, alpha), alpha)
			if nm != cs.Word && !strings.HasPrefix(nm, "-") {
				cs.Visible = append(cs.Visible, nm)
				cell = "word-and-name-of-a-thousand-characters"
			}
		}
	}
	if (k/6)%7 == 2 && len(cs.Visible) > 1 {
		// a command name that contains the very separators the enumeration is written with
		i := r.Intn(len(cs.Visible))
		nm := cs.Visible[i] + r.Pick([]string{", now", " or so", ", x or y", " or"})
		dup := false
		for _, v := range append(append([]string{}, cs.Visible...), cs.Hidden...) {
			dup = dup || v == nm
		}
		if !dup {
			cs.Visible[i] = nm
		}
	}
	return cs, cell
}

func mutateWord(r *Rand, s string, alpha []string) string {
	rs := []rune(s)
	switch r.Intn(4) {
	case 0: // substitute
		if len(rs) > 0 {
			rs[r.Intn(len(rs))] = []rune(alpha[r.Intn(len(alpha))])[0]
		}
	case 1: // delete
		if len(rs) > 1 {
			i := r.Intn(len(rs))
			rs = append(rs[:i:i], rs[i+1:]...)
		}
	case 2: // insert
		i := r.Intn(len(rs) + 1)
		rs = append(rs[:i:i], append([]rune(alpha[r.Intn(len(alpha))]), rs[i:]...)...)
	case 3: // transpose
		if len(rs) > 1 {
			i := r.Intn(len(rs) - 1)
			rs[i], rs[i+1] = rs[i+1], rs[i]
		}
	}
	return string(rs)
}

type emptyCmd struct{}

func c20Run(c *Ctx) {
	cs, cell := c20Gen(c)
	c.Case(func() interface{} { return cs })
	// after a "--" terminator (PassDoubleDash) every word is an argument - also one that equals a command name:
	// the diagnosis then has to cope with a word at distance 0
	afterTerminator := cs.HasWord && (c.K/6)%5 == 3
	if afterTerminator && len(cs.Visible) > 1 {
		if rr := c.Sub("exact-name"); rr.Bool() {
			cs.Word = cs.Visible[rr.Intn(len(cs.Visible))] // exactly a command's name (its siblings are near relatives)
		}
	}
	popts := flags.Options(flags.None)
	if afterTerminator {
		popts = flags.PassDoubleDash
	}
	p := flags.NewNamedParser("app", popts)
	parent := p.Command
	var prefix []string
	var err error
	if cs.Depth == 1 {
		parent, err = p.AddCommand("top", "", "", &emptyCmd{})
		if err != nil {
			c.Unspec("setup failed")
			return
		}
		prefix = []string{"top"}
		if c.K%5 == 2 {
			// the parent command itself is hidden: that says nothing about its sub-commands
			parent.Hidden = true
		}
	}
	for _, n := range cs.Visible {
		if _, err := parent.AddCommand(n, "desc", "", &emptyCmd{}); err != nil {
			c.Unspec("setup failed")
			return
		}
	}
	var hiddenCmds []*flags.Command
	for _, n := range cs.Hidden {
		hc, err := parent.AddCommand(n, "desc", "", &emptyCmd{})
		if err != nil {
			c.Unspec("setup failed")
			return
		}
		hiddenCmds = append(hiddenCmds, hc)
	}
	if c.K%4 == 1 {
		// a program may decide visibility late: an earlier diagnosis and help must not freeze the command list
		safely(func() {
			p.ParseArgs(append(append([]string{}, prefix...), "zz-earlier-word"))
			var sink strings.Builder
			p.WriteHelp(&sink)
		})
		p.Active = nil
		if cs.Depth == 1 {
			parent.Active = nil
		}
	}
	for _, hc := range hiddenCmds {
		hc.Hidden = true
	}
	isName := false
	for _, n := range append(append([]string{}, cs.Visible...), cs.Hidden...) {
		if n == cs.Word {
			isName = true
		}
	}
	if cs.HasWord && isName && !afterTerminator {
		return // the word selects a command: nothing to diagnose (trivial)
	}
	if len(cs.Visible)+len(cs.Hidden) == 0 {
		return // no commands at all: the word is an ordinary argument (trivial)
	}
	args := append([]string{}, prefix...)
	if afterTerminator {
		args = append(args, "--")
	}
	if cs.HasWord {
		args = append(args, cs.Word)
	}
	var perr error
	pi := safely(func() { _, perr = p.ParseArgs(args) })
	if pi != nil {
		c.Violate("panic", "ParseArgs panicked: %s", pi.Value)
		return
	}
	fe, ok := perr.(*flags.Error)
	if !ok {
		c.Violate("not-flags-error", "error %v (%T) is not a *flags.Error", perr, perr)
		return
	}
	msg := fe.Message
	c.Note("message", msg)
	vis := sortedCopy(cs.Visible)
	// hidden commands are never suggested or enumerated
	checkHidden := func(items []string) bool {
		for _, it := range items {
			for _, h := range cs.Hidden {
				if it == h {
					c.Violate("hidden-leak", "hidden command %q appears in %q", h, msg)
					return false
				}
			}
		}
		return true
	}
	if !cs.HasWord {
		if fe.Type != flags.ErrCommandRequired {
			c.Violate("type:command-required", "no command given: error type %s, want ErrCommandRequired", fe.Type)
			return
		}
		var items []string
		switch {
		case len(vis) == 0:
		case len(vis) == 1:
			if !strings.Contains(msg, vis[0]) {
				c.Violate("enum:missing", "message %q does not name the only visible command %q", msg, vis[0])
				return
			}
			items = []string{vis[0]}
		default:
			j := strings.Index(msg, "one command of: ")
			if j < 0 {
				c.Violate("enum:format", "message %q does not enumerate the commands", msg)
				return
			}
			// (compared as text: a name may itself contain ", " or " or ")
			if got, want := msg[j+len("one command of: "):], strings.Join(vis[:len(vis)-1], ", ")+" or "+vis[len(vis)-1]; got != want {
				c.Violate("enum:content", "enumeration %q is not the sorted visible commands %q joined as \"a, b or c\" (%q)", got, vis, want)
				return
			}
			items = vis
		}
		if checkHidden(items) {
			c.Held(cell, fmt.Sprintf("nv=%d nh=%d", len(vis), len(cs.Hidden)))
		}
		return
	}
	if fe.Type != flags.ErrUnknownCommand {
		c.Violate("type:unknown-command", "unknown word %q: error type %s, want ErrUnknownCommand", cs.Word, fe.Type)
		return
	}
	bq := backquoted(msg)
	if len(bq) == 0 || bq[0] != cs.Word {
		if !strings.Contains(cs.Word, "'") && !strings.Contains(cs.Word, "`") {
			c.Violate("word-not-named", "message %q does not name the given word %q", msg, cs.Word)
			return
		}
	}
	// reference distances
	dmin := -1
	var minimal []string
	for _, n := range vis {
		dd := refLevenshtein(cs.Word, n)
		if dmin < 0 || dd < dmin {
			dmin = dd
			minimal = []string{n}
		} else if dd == dmin {
			minimal = append(minimal, n)
		}
	}
	suggestOK := func(n string) (byRune, byByte bool) {
		return float64(dmin) < float64(utf8.RuneCountInString(n))/2, float64(dmin) < float64(len(n))/2
	}
	shape := fmt.Sprintf("nv=%d dmin=%d ties=%d wl=%d", len(vis), dmin, len(minimal), utf8.RuneCountInString(cs.Word))
	if k := strings.Index(msg, ", did you mean `"); k >= 0 {
		rest := msg[k+len(", did you mean `"):]
		sug := strings.TrimSuffix(rest, "'?")
		if !checkHidden([]string{sug}) {
			return
		}
		isMin := false
		for _, m := range minimal {
			if m == sug {
				isMin = true
			}
		}
		inVis := false
		for _, v := range vis {
			if v == sug {
				inVis = true
			}
		}
		if !inVis {
			c.Violate("suggest:not-a-command", "suggested %q is not a visible command (visible %q)", sug, vis)
			return
		}
		if !isMin {
			c.Violate("suggest:not-nearest", "word %q: suggested %q at true distance %d, but %q is at distance %d", cs.Word, sug, refLevenshtein(cs.Word, sug), minimal, dmin)
			return
		}
		br, bb := suggestOK(sug)
		if !br && !bb {
			c.Violate("suggest:too-far", "word %q: suggested %q although its true distance %d is not less than half its length", cs.Word, sug, dmin)
			return
		}
		if br != bb {
			c.Unspec("rune and byte length of the suggested name disagree about dist < len/2")
			return
		}
		c.Held(cell+":suggest", shape)
		return
	}
	// no suggestion: must be legitimate for at least one minimal candidate
	if len(vis) > 0 {
		allMust := true
		anyUnit := false
		for _, m := range minimal {
			br, bb := suggestOK(m)
			if !(br && bb) {
				allMust = false
			}
			if br != bb {
				anyUnit = true
			}
		}
		if allMust {
			c.Violate("enumerate:should-suggest", "word %q: nearest visible command(s) %q at true distance %d (< half their length) but no suggestion was made: %q", cs.Word, minimal, dmin, msg)
			return
		}
		if anyUnit {
			// fall through to the enumeration check, but the suggest/enumerate decision itself is unspecified
			defer func() {
				if !c.Violated() {
					c.verdict = VUnspec
					c.reason = "rune and byte length of the nearest name disagree about dist < len/2"
				}
			}()
		}
	}
	var items []string
	switch {
	case len(vis) == 0:
	case len(vis) == 1:
		if !strings.HasSuffix(msg, "You should use the "+vis[0]+" command") {
			c.Violate("enum:single", "message %q does not name the only visible command %q", msg, vis[0])
			return
		}
		items = []string{vis[0]}
	default:
		j := strings.Index(msg, "one command of: ")
		if j < 0 {
			c.Violate("enum:format", "message %q neither suggests nor enumerates", msg)
			return
		}
		if got, want := msg[j+len("one command of: "):], strings.Join(vis[:len(vis)-1], ", ")+" or "+vis[len(vis)-1]; got != want {
			c.Violate("enum:content", "enumeration %q is not the sorted visible commands %q joined as \"a, b or c\" (%q)", got, vis, want)
			return
		}
		items = vis
	}
	if !checkHidden(items) {
		return
	}
	sort.Strings(items)
	c.Held(cell+":enumerate", shape)
}

func init() {
	register(&Property{
		ID:    "C20",
		Title: "Unknown-command diagnostics name the truly nearest command",
		Cases: func(tier string) int64 {
			if tier == "thorough" {
				return c20Enum + c20Enum2 + 1000000
			}
			if tier == "race" {
				return 0
			}
			return c20Enum + c20Enum2 + 30000
		},
		Run:           c20Run,
		MinNontrivial: 200,
		Rule: "cases 0..14519 enumerate every (visible name of length 1..4, word of length 0..4) pair over {a,b,é} exhaustively, cases 14520..21659 every (name of length 1..3, word of length 0..3) pair over {a,é,ĩ,ũ} (characters whose UTF-8 encodings share their last byte); the rest are seeded random sets of 0-8 visible and 0-3 hidden names (near relatives of each other) with words that are near misses of visible/hidden names, unrelated, very short/long, or absent. " +
			"A case is non-trivial when ParseArgs produced an ErrUnknownCommand/ErrCommandRequired diagnosis that the oracle judged against the rune-Levenshtein reference; distinct = distinct (cell, #visible, min distance, #ties, word length).",
		Assumptions: []string{"ties at minimum distance: any minimal name is accepted", "when byte and rune length of the candidate put dist/len on different sides of 0.5 the case is unspecified", "names contain no ', ' or ' or ' so the enumeration can be split unambiguously"},
		Technique:   "runtime reference-model monitor: every diagnosis compared with an independent rune-Levenshtein oracle; exhaustive small-scope enumeration + seeded random sets; multi-step histories on one parser with direct oracles",
		LevelText:   "Exploration: the suggestion/enumeration logic is executed on every string pair of a small alphabet (exhaustive to length 4) and on ~10^4..10^6 random command sets and judged by an independent distance function; this is the right level because the claim is a pure function of (word, names) whose faults are input-shaped, not schedule-shaped.",
		LevelNote:   "Trusted: the harness's own textbook Levenshtein (self-tested against hand-computed values), message format parsing of the back-quoted word/suggestion and the comma/or list.",
		DesignRef:   "§4 C20",
	})
}
