package main

import (
	"fmt"
	"os"
	"strings"

	flags "github.com/jessevdk/go-flags"
)

// C09: commands run exactly once and only after a fully successful parse.

func c09Cfg() *DeclCfg {
	types := []TypeSpec{{K: KString}, {K: KBool}, {K: KBool}, {K: KInt}, {K: KString, W: WSlice}, {K: KUint8}, {K: KFloat64}, {K: KDuration}, {K: KString, W: WMap, MapKey: KString}, {W: WFunc0}}
	return &DeclCfg{
		MaxDepth: 3, MaxFan: 3, PCmds: 75, Types: types, OptsMin: 1, OptsMax: 3, SubGroupsMax: 1, PInline: 20, NestMax: 1,
		PNamespace: 25, PShortOnly: 20, PLongOnly: 20, PRequired: 25, PChoices: 15, PProgAttr: 30, POptional: 15, PHiddenCmd: 15,
		PPos: 30, PosMax: 2, PRest: 40, PPosReq: 50, PExec: 85, PByTag: 100, PSubOptional: 30, PAliases: 20,
		ParserOpts: []flags.Options{flags.HelpFlag, flags.HelpFlag | flags.PassDoubleDash, flags.PassDoubleDash, 0, flags.HelpFlag | flags.PassDoubleDash | flags.PassAfterNonOption},
		PosTypes:   []TypeSpec{{K: KString}, {K: KInt}},
	}
}

// c09CfgFor biases the declaration towards shapes in which the fault applies.
func c09CfgFor(fault string) *DeclCfg {
	cfg := c09Cfg()
	switch fault {
	case "help", "help-in-cluster":
		cfg.ParserOpts = []flags.Options{flags.HelpFlag, flags.HelpFlag | flags.PassDoubleDash, flags.HelpFlag | flags.PassDoubleDash | flags.PassAfterNonOption}
		cfg.Types = append(cfg.Types, TypeSpec{K: KBool}, TypeSpec{K: KBool})
	case "bad-choice":
		cfg.PChoices = 60
	case "callback-error":
		cfg.Types = append(cfg.Types, TypeSpec{W: WFunc0Err}, TypeSpec{W: WFunc0Err}, TypeSpec{K: KString, W: WFunc1Err}, TypeSpec{K: KInt, W: WFunc1Err})
	case "bad-env-choice":
		cfg.PChoices = 60
	case "bad-value":
		cfg.Types = append(cfg.Types, TypeSpec{K: KInt, W: WMap, MapKey: KString}, TypeSpec{K: KFloat64, W: WMap, MapKey: KString}, TypeSpec{K: KDuration, W: WMap, MapKey: KString})
	case "bad-env-value":
		cfg.Types = append(cfg.Types, TypeSpec{K: KInt, W: WSlice}, TypeSpec{K: KFloat64, W: WSlice}, TypeSpec{K: KInt, W: WSlicePtr})
	case "bad-positional":
		cfg.PPos, cfg.PCmds = 90, 50
		cfg.PosTypes = []TypeSpec{{K: KInt}, {K: KInt}, {K: KFloat64}, {K: KDuration}, {K: KString}}
		cfg.ParserOpts = []flags.Options{flags.PassDoubleDash, flags.HelpFlag | flags.PassDoubleDash, flags.IgnoreUnknown | flags.PassDoubleDash, flags.IgnoreUnknown, flags.PassDoubleDash | flags.PassAfterNonOption}
	case "drop-required-option":
		cfg.PRequired = 60
	case "drop-required-positional":
		cfg.PPos, cfg.PPosReq, cfg.PCmds = 90, 90, 40
	case "unknown-command", "missing-command":
		cfg.PSubOptional, cfg.PCmds, cfg.PPos = 0, 100, 10
	case "flag-with-argument":
		cfg.Types = append(cfg.Types, TypeSpec{K: KBool}, TypeSpec{K: KBool, W: WSlice})
	}
	return cfg
}

var c09Faults = []string{"none", "unknown-option", "bad-value", "missing-argument", "flag-with-argument", "drop-required-option", "drop-required-positional", "unknown-command", "missing-command", "help", "help-in-cluster", "bad-choice", "exec-error", "completion", "bad-positional", "callback-error", "bad-env-value", "bad-env-choice", "bad-optional-value"}

type hostHandlers struct {
	handlerErr error
}

func c09Run(c *Ctx) {
	r := c.R
	fault := c09Faults[c.K%int64(len(c09Faults))]
	withHandler := (c.K/int64(len(c09Faults)))%2 == 1
	d := GenDecl(c.Sub("d"), c09CfgFor(fault))
	if inHistTail(c, 42000, 1400000) {
		// a command that ran in an earlier parse must not make a later, incomplete command line run something
		hc := c09Cfg()
		hc.PRequired, hc.PPosReq, hc.PPos, hc.PSubOptional, hc.PCmds, hc.MaxDepth = 0, 0, 0, 25, 90, 3
		if c.K%4 == 3 {
			// a command must not run on a value that is no longer allowed (nor be refused one that is allowed now)
			hcc := histChoiceCfg()
			hcc.PExec = 80
			histCase(c, GenDecl(c.Sub("dh"), hcc), []string{"choices-in-place", "choices-replaced"}, []string{"parse"})
			return
		}
		histCase(c, GenDecl(c.Sub("dh"), hc), []string{"shorter-chain", "shorter-chain", "none"}, []string{"parse"})
		return
	}
	if fault == "exec-error" {
		for _, cm := range d.Cmds[1:] {
			cm.ExecErr = true
		}
	}
	var target *Cmd
	if len(d.Cmds) > 1 {
		target = d.Cmds[1+r.Intn(len(d.Cmds)-1)]
	}
	sc := GenScenario(r, d, &ScenCfg{MaxItems: 8, POcc: 45, PCluster: 10, PPos: 15, PCmd: 22, PTerm: 8, PQuoted: 5, SkipReq: true, Target: target})
	if sc.Exp.Unspec != "" {
		c.Unspec(sc.Exp.Unspec)
		return
	}
	if sc.NeedsCommand() {
		c.Unspec("vector ends where a sub-command is still required")
		return
	}
	// make the vector fully valid: supply every required option of the chain, fill required positionals
	for _, cm := range sc.Exp.Chain {
		for _, o := range cm.OwnOpts() {
			if o.Required {
				if c.W.Tier != "race" && !o.T.IsFunc() && !o.T.IsFlag() && o.T.W != WMap && sc.Exp.Seen[o] == 0 && r.Chance(1, 4) {
					// satisfied through its environment variable (for a string option also by the empty text)
					v := GenValueText(r, o)
					if o.T.K == KString && len(o.Choices) == 0 && (o.T.W == WScalar || o.T.W == WPtr) && r.Bool() {
						v = ""
					}
					if !strings.ContainsRune(v, 0) {
						o.Env = fmt.Sprintf("VH_C09R_%d_%d", c.K, o.ID)
						o.EnvDelim = ""
						o.EnvSet = &v
						key := d.FullEnv(o)
						os.Setenv(key, v)
						c.Defer(func() { os.Unsetenv(key) })
						continue
					}
				}
				if !sc.SupplyOption(r, o, true) {
					c.Unspec("required option cannot be supplied in this context")
					return
				}
			}
		}
	}
	sc.Redenote()
	if len(sc.UnmetPositionals()) > 0 {
		pi := passIndex(d, sc.Items)
		if pi < len(sc.Items) {
			c.Unspec("positional constraints unmet behind a pass-through region")
			return
		}
		for guard := 0; guard < 8 && len(sc.UnmetPositionals()) > 0; guard++ {
			a := sc.Final.Pos.Args[0]
			for _, x := range sc.Final.Pos.Args {
				if len(sc.Exp.PosVals[x]) == 0 || x.IsRest() {
					a = x
					break
				}
			}
			tok := fmt.Sprintf("t%d", r.Intn(100))
			if a.T.K != KString {
				tok = fmt.Sprintf("%d", r.Intn(100))
			}
			sc.Items = append(sc.Items, &Item{Kind: IPos, Tok: tok})
			sc.Redenote()
		}
		if len(sc.UnmetPositionals()) > 0 {
			c.Unspec("positional constraints cannot be met")
			return
		}
	}
	if sc.Exp.Unspec != "" {
		c.Unspec(sc.Exp.Unspec)
		return
	}
	items, wantType, pos, pi, wantErr, ok := injectFault(c, r, d, sc, fault)
	if !ok {
		return
	}
	args := RenderItems(d, items)
	b := d.Build()
	if b.Err != nil {
		c.Violate("setup-error", "generated declaration rejected: %v", b.Err)
		return
	}
	if !withHandler && c.K%5 == 2 && (fault == "none" || fault == "exec-error") {
		// a command that dispatches another line through the same parser (a shortcut that expands to another
		// command line, a batch command): what the outer call returns is still the outer line's
		busy := false
		for _, cm := range d.Cmds[1:] {
			if cm.Node != nil {
				cm.Node.after = func() {
					if busy {
						return
					}
					busy = true
					safely(func() { b.P.ParseArgs([]string{"zz-inner-word-1", "--", "zz-inner-word-2"}) })
					busy = false
				}
			}
		}
	}
	var handlerSentinel error = &sentinelErr{-1}
	handlerReturnsErr := withHandler && r.Chance(1, 4)
	if fault == "exec-error" {
		// what a command returns is the application's business: its own error values, but just as well one of the
		// library's ErrorType constants (they implement error) or a *flags.Error it built itself
		for _, cm := range d.Cmds[1:] {
			if cm.Node == nil {
				continue
			}
			switch cm.ID % 4 {
			case 1:
				cm.Node.ret = flags.ErrHelp
			case 2:
				cm.Node.ret = flags.ErrRequired
			case 3:
				cm.Node.ret = &flags.Error{Type: flags.ErrUnknownFlag, Message: fmt.Sprintf("the command's own complaint %d", cm.ID)}
			}
		}
		if c.K%3 == 1 {
			handlerSentinel = flags.ErrHelp
		}
	}
	if withHandler {
		b.P.CommandHandler = func(cmd flags.Commander, a []string) error {
			id := 0
			if n, ok := cmd.(*ExecNode); ok && n != nil {
				id = n.id
			}
			b.Log.add("handler", id, a)
			if handlerReturnsErr {
				return handlerSentinel
			}
			return nil
		}
	}
	completions := 0
	if fault == "completion" {
		if c.W.Tier == "race" {
			return
		}
		// (any non-empty value switches completion mode on)
		os.Setenv("GO_FLAGS_COMPLETION", r.Pick([]string{"1", "1", "verbose", "true", "yes", "0", "x"}))
		defer os.Unsetenv("GO_FLAGS_COMPLETION")
		b.P.CompletionHandler = func(items []flags.Completion) { completions++ }
	}
	c.Case(func() interface{} {
		return map[string]interface{}{"declaration": d.Describe(), "argv": fmt.Sprintf("%q", args), "intent": describeItems(d, items), "fault": fault, "command_handler": withHandler}
	})
	o := RunParse(b, args)
	c.Count("parses", 1)
	if o.Panic != nil {
		c.Violate("panic", "ParseArgs panicked: %s", o.Panic.Value)
		return
	}
	var inv []CallEntry
	for _, e := range o.Log {
		if e.Kind == "execute" || e.Kind == "handler" {
			inv = append(inv, e)
		}
	}
	c.Count("invocations_observed", int64(len(inv)))
	cell := fmt.Sprintf("%s/handler=%v", fault, withHandler)
	shape := fmt.Sprintf("depth=%d pos=%d/%d", sc.Final.Depth, pos, pi)
	if fault == "completion" {
		if len(inv) != 0 {
			c.Violate("completion:executed", "completion mode invoked %v", inv)
			return
		}
		if completions != 1 || o.Err != nil {
			c.Violate("completion:handler", "completion handler called %d times, error %v", completions, o.Err)
			return
		}
		c.Held(cell, shape)
		return
	}
	if wantErr && fault == "bad-positional" {
		if o.Err == nil {
			c.Violate("fault:bad-positional:not-reported", "an unconvertible positional value was accepted: argv %q", args)
			return
		}
		if len(inv) != 0 {
			c.Violate("fault:bad-positional:executed", "parse failed (%v) but %v was invoked", o.Err, inv)
			return
		}
		c.Held(cell, shape)
		return
	}
	if wantErr {
		if o.FErr == nil || o.FErr.Type != wantType {
			c.Violate("fault:"+fault+":wrong-error", "fault %s at item %d: got %s (%v), want %s", fault, pos, errTypeName(o.Err), o.Err, wantType)
			return
		}
		if len(inv) != 0 {
			c.Violate("fault:"+fault+":executed", "parse failed with %s but %v was invoked", wantType, inv)
			return
		}
		c.Held(cell, shape)
		return
	}
	// fully valid vector: exactly one invocation, innermost command, remaining arguments, error passed through
	final := sc.Final
	wantKind, wantID := "", 0
	if withHandler {
		wantKind = "handler"
		if final.Exec {
			wantID = final.ID
		}
	} else if final.Exec {
		wantKind, wantID = "execute", final.ID
	}
	if wantKind == "" {
		if len(inv) != 0 {
			c.Violate("valid:unexpected-invocation", "no command is active but %v was invoked", inv)
			return
		}
		if o.Err != nil {
			c.Violate("valid:rejected", "valid vector rejected: %v", o.Err)
			return
		}
		c.Held(cell+"/no-command", shape)
		return
	}
	if len(inv) != 1 {
		c.Violate("valid:invocation-count", "%d invocations %v, want exactly one %s of node %d", len(inv), inv, wantKind, wantID)
		return
	}
	if inv[0].Kind != wantKind || inv[0].ID != wantID {
		c.Violate("valid:wrong-node", "invoked %s of node %d, want %s of node %d (innermost active command %s)", inv[0].Kind, inv[0].ID, wantKind, wantID, final.Name)
		return
	}
	if !eqStrs(inv[0].Args, sc.Exp.Rest) {
		c.Violate("valid:args", "invocation received %q, expected remaining arguments %q", inv[0].Args, sc.Exp.Rest)
		return
	}
	var wantRet error
	if withHandler {
		if handlerReturnsErr {
			wantRet = handlerSentinel
		}
	} else if final.ExecErr {
		wantRet = final.Node.ret
	}
	if o.Err != wantRet {
		c.Violate("valid:error-identity", "ParseArgs returned %v (%T), the command returned %v", o.Err, o.Err, wantRet)
		return
	}
	if o.Err == nil && !eqStrs(o.Rest, sc.Exp.Rest) {
		c.Violate("valid:rest", "returned remaining arguments %q, expected %q", o.Rest, sc.Exp.Rest)
		return
	}
	c.Held(cell, shape)
}

// injectFault injects one fault of the given kind into the valid scenario sc at a random legal item position.
// It returns the faulted items and the documented error type. ok=false: the fault does not apply (c.Unspec was called).
func injectFault(c *Ctx, r *Rand, d *Decl, sc *Scenario, fault string) (items []*Item, wantType flags.ErrorType, pos int, pi int, wantErr bool, ok bool) {
	valid := sc.Items
	pi = passIndex(d, valid)
	pos = r.Intn(pi + 1)
	scopeAt := d.ScopeOf(cmdBefore(d, valid, pos))
	insert := func(it *Item) []*Item {
		var items []*Item
		items = append(items, valid[:pos]...)
		items = append(items, it)
		items = append(items, valid[pos:]...)
		return items
	}
	items = valid
	wantErr = true
	switch fault {
	case "none", "exec-error", "completion":
		wantErr = false
	case "unknown-option":
		tok := UnknownToken(r, d, scopeAt)
		items = insert(&Item{Kind: IFault, Toks: []string{tok}, Note: fault})
		wantType = flags.ErrUnknownFlag
	case "bad-value", "bad-choice":
		var cands []*Opt
		for _, o := range scopeAt.Addressable(d) {
			if fault == "bad-choice" && len(o.Choices) > 0 && !o.T.IsFunc() {
				cands = append(cands, o)
			}
			if fault == "bad-value" && len(o.Choices) == 0 && !o.T.IsFunc() && (isIntKind(o.T.K) || o.T.K == KFloat64 || o.T.K == KDuration) {
				cands = append(cands, o)
			}
		}
		if len(cands) == 0 {
			c.Unspec("no option for fault " + fault)
			return nil, 0, 0, 0, false, false
		}
		o := cands[r.Intn(len(cands))]
		bad := r.Pick([]string{"zz", "", "1x", " 1", "99999999999999999999999x", "0x"})
		if fault == "bad-choice" {
			bad = "not-a-choice"
		}
		if o.T.W == WMap {
			// a map whose element type is numeric: an entry without a colon has no value, a bad value after the colon
			bad = r.Pick([]string{"cpu", "k1", "k1:zz", "k1:", "k1:1x"})
			if isIntKind(o.T.MapKey) {
				bad = r.Pick([]string{"7", "7:zz", "7:", "x:1"})
			}
		}
		var tok string
		if o.Long != "" && scopeAt.Long[d.FullLong(o)] == o {
			tok = "--" + d.FullLong(o) + "=" + bad
		} else {
			tok = "-" + string(o.Short) + "=" + bad
		}
		items = insert(&Item{Kind: IFault, Toks: []string{tok}, Note: fault})
		wantType = flags.ErrMarshal
		if fault == "bad-choice" {
			wantType = flags.ErrInvalidChoice
		}
	case "bad-positional":
		// a typed positional of the final command receives an unconvertible token: as a plain token, after the
		// terminator, or as an unknown option passed through under IgnoreUnknown
		if sc.Final.Pos == nil {
			c.Unspec("no positionals")
			return nil, 0, 0, 0, false, false
		}
		var typed *PosArg
		at := -1
		for _, a := range sc.Final.Pos.Args {
			if a.T.K != KString {
				typed = a
				break
			}
		}
		if typed == nil {
			c.Unspec("no typed positional")
			return nil, 0, 0, 0, false, false
		}
		// find the item that fills it (first token bound to it) and replace its token
		seen := 0
		dn0 := Denote(d, nil)
		_ = dn0
		for i := range valid {
			if valid[i].Kind != IPos && valid[i].Kind != IRaw {
				continue
			}
			pre := Denote(d, valid[:i+1])
			if pre.Final == sc.Final && len(pre.Exp.PosVals[typed]) == 1 && seen == 0 {
				at = i
				seen++
			}
		}
		if at < 0 {
			c.Unspec("typed positional not filled in this vector")
			return nil, 0, 0, 0, false, false
		}
		bad := r.Pick([]string{"notanumber", "1x", "", "!!"})
		route := r.Intn(3)
		items = append([]*Item{}, valid...)
		switch {
		case route == 1 && d.Options&flags.PassDoubleDash != 0 && at >= pi:
			items[at] = &Item{Kind: IFault, Toks: []string{bad}, Note: fault + " after terminator"}
		case route == 2 && d.Options&flags.IgnoreUnknown != 0 && at < pi:
			items[at] = &Item{Kind: IFault, Toks: []string{"--zz-unknown-as-positional"}, Note: fault + " via IgnoreUnknown"}
		default:
			if bad == "" && at < pi {
				bad = "x1"
			}
			items[at] = &Item{Kind: IFault, Toks: []string{bad}, Note: fault}
		}
		pos = at
		wantType = flags.ErrUnknown // any non-nil error: positional conversion errors are raw errors
	case "callback-error":
		// a callback option whose function returns an ordinary error: reported as ErrMarshal naming the flag
		var cands []*Opt
		for _, o := range scopeAt.Addressable(d) {
			if (o.T.W == WFunc0Err || o.T.W == WFunc1Err) && sc.Exp.Seen[o] == 0 {
				cands = append(cands, o)
			}
		}
		if len(cands) == 0 {
			c.Unspec("no option for fault " + fault)
			return nil, 0, 0, 0, false, false
		}
		o := cands[r.Intn(len(cands))]
		o.CallbackErr = true
		var tok string
		if o.Long != "" && scopeAt.Long[d.FullLong(o)] == o {
			tok = "--" + d.FullLong(o)
		} else {
			tok = "-" + string(o.Short)
		}
		if o.T.W == WFunc1Err {
			tok += "=" + GenScalarTextSimple(r, o)
		}
		items = insert(&Item{Kind: IFault, Toks: []string{tok}, Note: fault})
		wantType = flags.ErrMarshal
	case "bad-optional-value":
		// an optional-argument option whose declared optional-value is not a value of its type (or not one of
		// its choices), given bare: the refusal of that value is an error like any other
		var cands []*Opt
		for _, o := range scopeAt.Addressable(d) {
			if !o.T.IsFunc() && !o.T.IsFlag() && o.T.W == WScalar && sc.Exp.Seen[o] == 0 && (isIntKind(o.T.K) || o.T.K == KFloat64 || o.T.K == KDuration || len(o.Choices) > 0) {
				cands = append(cands, o)
			}
		}
		if len(cands) == 0 {
			c.Unspec("no option for fault " + fault)
			return nil, 0, 0, 0, false, false
		}
		o := cands[r.Intn(len(cands))]
		o.Optional = true
		good := GenValueText(r, o)
		o.OptionalValues = [][]string{{"!!bad"}, {good, "!!bad"}, {"!!bad", good}}[r.Intn(3)]
		if len(o.Choices) == 0 && len(o.OptionalValues) > 1 && o.T.W == WScalar {
			o.OptionalValues = []string{"!!bad"}
		}
		var tok string
		if o.Long != "" && scopeAt.Long[d.FullLong(o)] == o {
			tok = "--" + d.FullLong(o)
		} else {
			tok = "-" + string(o.Short)
		}
		items = insert(&Item{Kind: IFault, Toks: []string{tok}, Note: fault})
		wantType = flags.ErrMarshal
		if len(o.Choices) > 0 {
			wantType = flags.ErrInvalidChoice
		}
	case "bad-env-value", "bad-env-choice":
		// a bad value that arrives through an environment variable (any option of the parser, selected or not)
		if c.W.Tier == "race" {
			c.Unspec("environment faults are not run concurrently")
			return nil, 0, 0, 0, false, false
		}
		var cands []*Opt
		for _, o := range d.Opts {
			if o.T.IsFunc() || o.T.IsFlag() || sc.Exp.Seen[o] > 0 || o.T.W == WMap {
				continue
			}
			if fault == "bad-env-choice" && len(o.Choices) > 0 {
				cands = append(cands, o)
			}
			if fault == "bad-env-value" && len(o.Choices) == 0 && (isIntKind(o.T.K) || o.T.K == KFloat64 || o.T.K == KDuration) {
				cands = append(cands, o)
			}
		}
		if len(cands) == 0 {
			c.Unspec("no option for fault " + fault)
			return nil, 0, 0, 0, false, false
		}
		o := cands[r.Intn(len(cands))]
		o.Env = fmt.Sprintf("VH_%s_%d", c.P.ID, c.K)
		val := map[string]string{"bad-env-value": "!!bad", "bad-env-choice": "not-a-choice"}[fault]
		if o.T.IsMulti() && r.Chance(2, 3) {
			// several elements of which one - not the last - is bad ("0" is a good element of every candidate type)
			o.EnvDelim = r.Pick([]string{",", ";"})
			val = strings.Join([][]string{{val, "0"}, {"0", val, "0"}, {"0", "0", val, "0"}}[r.Intn(3)], o.EnvDelim)
			if len(o.Choices) > 0 {
				val = strings.ReplaceAll(val, "0", o.Choices[0])
			}
		}
		os.Setenv(o.Env, val)
		key := o.Env
		c.Defer(func() { os.Unsetenv(key) })
		wantType = map[string]flags.ErrorType{"bad-env-value": flags.ErrMarshal, "bad-env-choice": flags.ErrInvalidChoice}[fault]
	case "missing-argument":
		var cands []*Opt
		for _, o := range d.ScopeOf(sc.Final).Addressable(d) {
			if !o.T.IsFlag() && !o.Optional {
				cands = append(cands, o)
			}
		}
		if len(cands) == 0 || pi < len(valid) {
			c.Unspec("no option for fault " + fault)
			return nil, 0, 0, 0, false, false
		}
		o := cands[r.Intn(len(cands))]
		fs := d.ScopeOf(sc.Final)
		var tok string
		if o.Long != "" && fs.Long[d.FullLong(o)] == o {
			tok = "--" + d.FullLong(o)
		} else {
			tok = "-" + string(o.Short)
		}
		items = append(append([]*Item{}, valid...), &Item{Kind: IFault, Toks: []string{tok}, Note: fault})
		wantType = flags.ErrExpectedArgument
	case "flag-with-argument":
		var cands []*Opt
		for _, o := range scopeAt.Addressable(d) {
			if o.T.IsFlag() {
				cands = append(cands, o)
			}
		}
		if len(cands) == 0 {
			c.Unspec("no option for fault " + fault)
			return nil, 0, 0, 0, false, false
		}
		o := cands[r.Intn(len(cands))]
		var tok string
		if o.Long != "" && scopeAt.Long[d.FullLong(o)] == o {
			tok = "--" + d.FullLong(o) + "=true"
		} else {
			tok = "-" + string(o.Short) + "=true"
		}
		items = insert(&Item{Kind: IFault, Toks: []string{tok}, Note: fault})
		wantType = flags.ErrNoArgumentForBool
	case "drop-required-option":
		var idx []int
		for i, it := range valid {
			if (it.Kind == IOcc || it.Kind == IFlag) && it.Opt.Required && len(it.Opt.Defaults) == 0 {
				idx = append(idx, i)
			}
		}
		if len(idx) == 0 {
			c.Unspec("no required option in the chain")
			return nil, 0, 0, 0, false, false
		}
		i := idx[r.Intn(len(idx))]
		items = append(append([]*Item{}, valid[:i]...), valid[i+1:]...)
		wantType = flags.ErrRequired
	case "drop-required-positional":
		// remove the last plain token that was needed
		if sc.Final.Pos == nil {
			c.Unspec("no positionals")
			return nil, 0, 0, 0, false, false
		}
		last := -1
		for i, it := range valid {
			if it.Kind == IPos || it.Kind == IRaw {
				last = i
			}
		}
		if last < 0 {
			c.Unspec("no positional token")
			return nil, 0, 0, 0, false, false
		}
		items = append(append([]*Item{}, valid[:last]...), valid[last+1:]...)
		dn := Denote(d, items)
		s2 := &Scenario{D: d, Items: items, Exp: dn.Exp, Final: dn.Final}
		if dn.Final != sc.Final || len(s2.UnmetPositionals()) == 0 {
			c.Unspec("dropping the token leaves the constraints met")
			return nil, 0, 0, 0, false, false
		}
		wantType = flags.ErrRequired
	case "unknown-command", "missing-command":
		// cut after a command word whose command requires a sub-command
		var cuts []int
		for i, it := range valid {
			if it.Kind == ICmd && len(it.Cmd.Parent.Subs) > 0 && !it.Cmd.Parent.SubOptional && it.Cmd.Parent.Pos == nil {
				cuts = append(cuts, i)
			}
		}
		if len(cuts) == 0 {
			c.Unspec("no required sub-command in this vector")
			return nil, 0, 0, 0, false, false
		}
		cut := cuts[r.Intn(len(cuts))]
		items = append([]*Item{}, valid[:cut]...)
		par := valid[cut].Cmd.Parent
		// options required by the chain up to here must stay supplied; they are (inserted right after their command word)
		for _, cm := range par.Chain() {
			for _, o := range cm.OwnOpts() {
				if o.Required && len(o.Defaults) == 0 {
					found := false
					for _, it := range items {
						if it.Opt == o {
							found = true
						}
						for _, f := range it.Flags {
							if f == o {
								found = true
							}
						}
					}
					if !found {
						c.Unspec("required option lost by the cut")
						return nil, 0, 0, 0, false, false
					}
				}
			}
		}
		if fault == "unknown-command" {
			w := fmt.Sprintf("nocmd%d", r.Intn(100))
			items = append(items, &Item{Kind: IFault, Toks: []string{w}, Note: fault})
			wantType = flags.ErrUnknownCommand
		} else {
			wantType = flags.ErrCommandRequired
		}
	case "help", "help-in-cluster":
		if d.Options&flags.HelpFlag == 0 {
			c.Unspec("HelpFlag not set")
			return nil, 0, 0, 0, false, false
		}
		tok := r.Pick([]string{"-h", "--help"})
		if fault == "help-in-cluster" {
			var fl *Opt
			for _, o := range scopeAt.Addressable(d) {
				if o.T.IsFlag() && o.Short != 0 && scopeAt.Short[o.Short] == o {
					fl = o
				}
			}
			if fl == nil {
				c.Unspec("no flag for a cluster")
				return nil, 0, 0, 0, false, false
			}
			tok = "-" + string(fl.Short) + "h"
		}
		items = insert(&Item{Kind: IFault, Toks: []string{tok}, Note: fault})
		wantType = flags.ErrHelp
	}
	return items, wantType, pos, pi, wantErr, true
}

func init() {
	register(&Property{
		ID:    "C09",
		Title: "Commands run exactly once and only after a fully successful parse",
		Cases: func(tier string) int64 {
			switch tier {
			case "thorough":
				return 1400000 + 116666 // + history cases
			case "race":
				return 0
			}
			return 42000 + 3500 // + history cases
		},
		Run:           c09Run,
		MinNontrivial: 300,
		Rule: "case k: a tree whose commands are all Commander nodes (depth <=3), a fully valid intent vector (required options and positionals supplied), then the (k mod 14)-th fault {none, unknown option, bad value, missing argument, argument to a flag, dropped required option, dropped required positional, unknown command word, missing command, -h/--help, help inside a cluster, not-a-choice, Execute returns an error, completion mode} injected at a random item position; with a CommandHandler in every second block. " +
			"Oracle (exactly-once accounting over the call log): typed error => no Execute/handler entry; valid => exactly one entry, for the innermost active command, with the returned remaining arguments, error identity preserved; completion => no entry. distinct = (fault, handler, depth, position).",
		Assumptions: []string{"the fault position is one random item position per case (all positions are covered across cases, not within one)"},
		Technique:   "runtime exactly-once accounting monitor over a recorded call log (Execute / CommandHandler) versus the ParseArgs result, with single-fault injection into valid vectors; metamorphic history monitor ([use, change of the public model, use] on one parser vs. a fresh parser of the changed declaration)",
		LevelText:   "Fault enumeration by input: every fault kind is injected at every relative position across the run and the call log is audited; this is the right level for a universal negative (\"never runs after an error\").",
		LevelNote:   "Trusted: call log written by the harness's own Commander nodes; the validity of the base vector (checked by the 'none' fault cell).",
		DesignRef:   "§4 C09",
	})
}
